"""Per-property configuration: which units decide which clauses, the texts that go
into the evidence files, and the functions under contract (re-located on every run)."""

COMMON_ASSUMPTIONS = [
    "CBMC's models of f64 comparison/arithmetic, memcmp, char encoding and the std that Kani ships agree with the repository toolchain on the verified paths (guarded by native replay of every counterexample, not of every proof)",
    "kani/common.rs empty_type_space(): TypeSpace built field by field with settings.map_type left uninitialised (never read by the verified functions)",
    "termination is not proved by Kani; loops are unrolled to the stated unwind bound with unwinding assertions on",
    "the unverified conversion driver routes schemas to the verified leaf functions as a reading of the code says; the routing itself is not verified",
]

PROPS = {
    "C10": {
        "level": "proof",
        "kani": {"units": ["c10_integer"], "timeout_quick": 1500, "timeout_thorough": 5400, "jobs": 8},
        "functions": [
            {"path": "typify-impl/src/convert.rs", "fn": "convert_integer"},
        ],
        "clauses": [
            "P0 result is an Integer entry named by one of the twelve documented Rust integer types; Err only with a default present",
            "P1 every admitted integer in range(i64) U range(format) is representable in the chosen type",
            "P2 a NonZero type is chosen only when 0 is not admitted",
            "P3 a numeric default outside the schema bounds / format range is rejected",
            "P4 no panic or arithmetic fault on any finite input",
        ],
        "not_decided": [],
        "checker_cmd": "cargo kani -p typify-impl -Z stubbing -Z function-contracts --exact --harness <each> (CBMC 6.11, CaDiCaL), unwinding assertions on",
        "trusted_base": ["Kani 0.68.0 compiler and std models", "CBMC 6.11.0 float bit-blasting", "kani/common.rs harness support"],
        "explanation": "Each harness instance fixes the format string and leaves the numeric keywords symbolic over all finite f64; the instances partition the format domain, so together they cover every (format, keywords, default, probe integer) input without bound.",
        "assumptions": COMMON_ASSUMPTIONS + [
            "probe integers are the f64-representable integers; for the others the claim follows by an interval argument (admitted set and type ranges are intervals with f64-representable integer end points) that is not machine-checked",
            "multipleOf: when present only n = 0 is probed (0 is a multiple of every number)",
        ],
    },
    "C16": {
        "level": "proof",
        "verus": {
            "extractor": "extract.py",
            "baseline": "baseline_obligations.json",
            "functions": ["name", "from", "assign", "assign_type", "id_to_option", "type_to_option", "id_to_box"],
            "rlimit_quick": 10, "rlimit_thorough": 30,
        },
        "functions": [
            {"path": "typify-impl/src/lib.rs", "fn": "assign"},
            {"path": "typify-impl/src/lib.rs", "fn": "assign_type"},
            {"path": "typify-impl/src/lib.rs", "fn": "id_to_option"},
            {"path": "typify-impl/src/lib.rs", "fn": "type_to_option"},
            {"path": "typify-impl/src/lib.rs", "fn": "id_to_box"},
            {"path": "typify-impl/src/type_entry.rs", "fn": "name", "impl": r"^impl TypeEntry\b"},
            {"path": "typify-impl/src/type_entry.rs", "fn": "from", "impl": r"^impl From<TypeEntryDetails> for TypeEntry"},
        ],
        "clauses": [
            "assign: returns the old next_id, increments it, leaves the four maps unchanged",
            "assign_type P1: representation invariant wf preserved; index coherence preserved",
            "assign_type P2: next_id monotone (+0/+1), result < next_id",
            "assign_type P3: every identifier handed out earlier keeps resolving to the same entry",
            "assign_type P4: no by-name / structural / reference index entry is re-pointed",
            "assign_type P5: unnamed non-reference entry: structural reuse returns the indexed id and changes nothing; otherwise exactly one fresh id, one index entry, one id_to_entry entry",
            "assign_type P6: named entry: by-name reuse returns the indexed id and changes nothing; otherwise exactly one fresh id recorded under the name",
            "id_to_option / id_to_box / type_to_option: the same guarantees for the Option<T> / Box<T> entry they build",
        ],
        "not_decided": [
            "convert_ref_type's unconditional name_to_id.insert / id_to_entry.insert, the pre-assignment and finalisation loops of add_ref_types_impl / add_type_with_name, break_cycles' in-place edits: outside the subset Verus accepts (closures capturing &mut self, enumerate, Vec<&mut T>) and too large for Kani (B-trees with more than one entry)",
            "the rendered output never contains two definitions of one name (token level)",
            "batch-splitting independence",
        ],
        "checker_cmd": "python3 verus/extract.py /repo gen.rs && verus gen.rs --output-json --time --rlimit 10",
        "trusted_base": ["Verus 0.2026.09.13 + Z3", "vstd specifications of BTreeMap::{get,insert}, String::clone, Into::into",
                         "verus/prelude.rs (opaque Schema / serde_json::Value, five-field TypeSpace)", "verus/extract.py drop list D1-D7"],
        "explanation": "Function bodies are extracted byte-identically from /repo on every run and verified against contracts for all inputs and all map contents, function by function (callers see only callee contracts).",
        "assumptions": [
            "derived Clone impls of TypeId and TypeEntryDetails return a value equal to their argument (two assume_specification items)",
            "keys_lawful(): the Ord impls of TypeId, String, RefKey and TypeEntryDetails are lawful, so the B-tree maps behave as mathematical maps; for TypeEntryDetails this is true only on unnamed kinds, and wf proves named kinds and references never become keys of type_to_id",
            "every other TypeSpace field (settings, definitions, cache, defaults, uses_*) is dropped from the extracted struct; the extractor fails if an extracted body mentions one",
            "the unverified ingestion code calls these functions with a well-formed state (wf) and next_id < u64::MAX",
        ],
    },
}
