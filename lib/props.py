"""Per-property configuration: which units decide which clauses, the texts that go
into the evidence files, and the functions under contract (re-located on every run)."""

COMMON_ASSUMPTIONS = [
    "CBMC's models of f64 comparison/arithmetic, memcmp, char encoding and the std that Kani ships agree with the repository toolchain on the verified paths (guarded by native replay of every counterexample, not of every proof)",
    "kani/common.rs empty_type_space(): TypeSpace built field by field with settings.map_type left uninitialised (never read by the verified functions)",
    "termination is not proved by Kani; loops are unrolled to the stated unwind bound with unwinding assertions on",
    "the unverified conversion driver routes schemas to the verified leaf functions as a reading of the code says; the routing itself is not verified",
]

PROPS = {
    "C10": {
        "level": "proof",
        "kani": {"units": ["c10_integer"], "timeout_quick": 1500, "timeout_thorough": 5400, "jobs": 8},
        "functions": [
            {"path": "typify-impl/src/convert.rs", "fn": "convert_integer"},
        ],
        "clauses": [
            "P0 result is an Integer entry named by one of the twelve documented Rust integer types; Err only with a default present",
            "P1 every admitted integer in range(i64) U range(format) is representable in the chosen type",
            "P2 a NonZero type is chosen only when 0 is not admitted",
            "P3 a numeric default outside the schema bounds / format range is rejected",
            "P4 no panic or arithmetic fault on any finite input",
        ],
        "not_decided": [],
        "checker_cmd": "cargo kani -p typify-impl -Z stubbing -Z function-contracts --exact --harness <each> (CBMC 6.11, CaDiCaL), unwinding assertions on",
        "trusted_base": ["Kani 0.68.0 compiler and std models", "CBMC 6.11.0 float bit-blasting", "kani/common.rs harness support"],
        "explanation": "Each harness instance fixes the format string and leaves the numeric keywords symbolic over all finite f64; the instances partition the format domain, so together they cover every (format, keywords, default, probe integer) input without bound.",
        "assumptions": COMMON_ASSUMPTIONS + [
            "probe integers are the f64-representable integers; for the others the claim follows by an interval argument (admitted set and type ranges are intervals with f64-representable integer end points) that is not machine-checked",
            "multipleOf: when present only n = 0 is probed (0 is a multiple of every number)",
        ],
    },
}
