"""Per-property configuration: which units decide which clauses, the texts that go
into the evidence files, and the functions under contract (re-located on every run)."""

COMMON_ASSUMPTIONS = [
    "CBMC's models of f64 comparison/arithmetic, memcmp, char encoding and the std that Kani ships agree with the repository toolchain on the verified paths (guarded by native replay of every counterexample, not of every proof)",
    "kani/common.rs empty_type_space(): TypeSpace built field by field with settings.map_type left uninitialised (never read by the verified functions)",
    "termination is not proved by Kani; loops are unrolled to the stated unwind bound with unwinding assertions on",
    "the unverified conversion driver routes schemas to the verified leaf functions as a reading of the code says; the routing itself is not verified",
]

PROPS = {
    "C10": {
        "level": "proof",
        "kani": {"units": ["c10_integer", "c10_string"], "timeout_quick": 1500, "timeout_thorough": 5400, "jobs": 8},
        "functions": [
            {"path": "typify-impl/src/convert.rs", "fn": "convert_integer"},
        ],
        "clauses": [
            "P0 result is an Integer entry named by one of the twelve documented Rust integer types; Err only with a default present",
            "P1 every admitted integer in range(i64) U range(format) is representable in the chosen type",
            "P2 a NonZero type is chosen only when 0 is not admitted",
            "P3 a numeric default outside the schema bounds / format range is rejected",
            "P4 no panic or arithmetic fault on any finite input",
        ],
        "not_decided": [],
        "checker_cmd": "cargo kani -p typify-impl -Z stubbing -Z function-contracts --exact --harness <each> (CBMC 6.11, CaDiCaL), unwinding assertions on",
        "trusted_base": ["Kani 0.68.0 compiler and std models", "CBMC 6.11.0 float bit-blasting", "kani/common.rs harness support"],
        "explanation": "Each harness instance fixes the format string and leaves the numeric keywords symbolic over all finite f64; the instances partition the format domain, so together they cover every (format, keywords, default, probe integer) input without bound.",
        "assumptions": COMMON_ASSUMPTIONS + [
            "probe integers are the f64-representable integers; for the others the claim follows by an interval argument (admitted set and type ranges are intervals with f64-representable integer end points) that is not machine-checked",
            "multipleOf: when present only n = 0 is probed (0 is a multiple of every number)",
        ],
    },
    "C16": {
        "level": "proof",
        "verus": {
            "extractor": "extract.py",
            "baseline": "baseline_obligations.json",
            "functions": ["name", "from", "assign", "assign_type", "id_to_option", "type_to_option", "id_to_box", "convert_ref_type_tail"],
            "rlimit_quick": 10, "rlimit_thorough": 30,
        },
        "functions": [
            {"path": "typify-impl/src/lib.rs", "fn": "assign"},
            {"path": "typify-impl/src/lib.rs", "fn": "assign_type"},
            {"path": "typify-impl/src/lib.rs", "fn": "id_to_option"},
            {"path": "typify-impl/src/lib.rs", "fn": "type_to_option"},
            {"path": "typify-impl/src/lib.rs", "fn": "id_to_box"},
            {"path": "typify-impl/src/lib.rs", "fn": "convert_ref_type"},
            {"path": "typify-impl/src/type_entry.rs", "fn": "name", "impl": r"^impl TypeEntry\b"},
            {"path": "typify-impl/src/type_entry.rs", "fn": "from", "impl": r"^impl From<TypeEntryDetails> for TypeEntry"},
        ],
        "clauses": [
            "assign: returns the old next_id, increments it, leaves the four maps unchanged",
            "assign_type P1: representation invariant wf preserved; index coherence preserved",
            "assign_type P2: next_id monotone (+0/+1), result < next_id",
            "assign_type P3: every identifier handed out earlier keeps resolving to the same entry",
            "assign_type P4: no by-name / structural / reference index entry is re-pointed",
            "assign_type P5: unnamed non-reference entry: structural reuse returns the indexed id and changes nothing; otherwise exactly one fresh id, one index entry, one id_to_entry entry",
            "assign_type P6: named entry: by-name reuse returns the indexed id and changes nothing; otherwise exactly one fresh id recorded under the name",
            "id_to_option / id_to_box / type_to_option: the same guarantees for the Option<T> / Box<T> entry they build",
        ],
        "not_decided": [
            "convert_ref_type's unconditional name_to_id.insert / id_to_entry.insert, the pre-assignment and finalisation loops of add_ref_types_impl / add_type_with_name, break_cycles' in-place edits: outside the subset Verus accepts (closures capturing &mut self, enumerate, Vec<&mut T>) and too large for Kani (B-trees with more than one entry)",
            "the rendered output never contains two definitions of one name (token level)",
            "batch-splitting independence",
        ],
        "checker_cmd": "python3 verus/extract.py /repo gen.rs && verus gen.rs --output-json --time --rlimit 10",
        "trusted_base": ["Verus 0.2026.09.13 + Z3", "vstd specifications of BTreeMap::{get,insert}, String::clone, Into::into",
                         "verus/prelude.rs (opaque Schema / serde_json::Value, five-field TypeSpace)", "verus/extract.py drop list D1-D7"],
        "explanation": "Function bodies are extracted byte-identically from /repo on every run and verified against contracts for all inputs and all map contents, function by function (callers see only callee contracts).",
        "assumptions": [
            "derived Clone impls of TypeId and TypeEntryDetails return a value equal to their argument (two assume_specification items)",
            "keys_lawful(): the Ord impls of TypeId, String, RefKey and TypeEntryDetails are lawful, so the B-tree maps behave as mathematical maps; for TypeEntryDetails this is true only on unnamed kinds, and wf proves named kinds and references never become keys of type_to_id",
            "every other TypeSpace field (settings, definitions, cache, defaults, uses_*) is dropped from the extracted struct; the extractor fails if an extracted body mentions one",
            "the unverified ingestion code calls these functions with a well-formed state (wf) and next_id < u64::MAX",
        ],
    },
    "C05": {
        "level": "other",
        "kani": {"units": ["c05_validator"], "timeout_quick": 1200, "timeout_thorough": 3600},
        "functions": [
            {"path": "typify-impl/src/util.rs", "fn": "is_valid"},
            {"path": "typify-impl/src/util.rs", "fn": "new", "impl": r"^impl StringValidator\b"},
        ],
        "clauses": [
            "P1 StringValidator::is_valid (no pattern) == (min <= |s| <= max) with |s| counted in Unicode scalar values -- for strings of at most 2 scalar values (every scalar value, all UTF-8 widths) and every Option<u32> pair",
            "P1n StringValidator::new carries exactly the schema's length bounds (pattern absent)",
        ],
        "not_decided": [
            "the emitted FromStr / TryFrom / Deserialize templates of constrained newtypes (token templates)",
            "pattern enforcement (regress engine), allow / deny lists, tuple arity, tag values, field visibility",
            "deny_unknown_fields <=> additionalProperties:false (struct_members) and required <=> non-optional (struct_property): reach sanitize / B-trees with several entries; not within Kani's reach",
            "strings longer than 2 scalar values (is_valid is loop-free in the string apart from the character count)",
        ],
        "checker_cmd": "cargo kani -p typify-impl --exact --harness <each>",
        "trusted_base": ["Kani 0.68.0 / CBMC 6.11.0", "kani/common.rs"],
        "explanation": "Partial claim: only the generation-time length filter that decides which enumerated strings survive into a generated enum is under contract; its inputs are symbolic characters (bounded in number, not in value) and symbolic bounds. Everything C05 says about the behaviour of emitted impls is not decided.",
        "assumptions": COMMON_ASSUMPTIONS,
    },
    "C06": {
        "level": "other",
        "kani": {"units": ["c06_validate", "c06_has_default"], "timeout_quick": 1500, "timeout_thorough": 3600},
        "functions": [
            {"path": "typify-impl/src/defaults.rs", "fn": "validate_value"},
            {"path": "typify-impl/src/defaults.rs", "fn": "validate_default_for_external_enum"},
            {"path": "typify-impl/src/structs.rs", "fn": "has_default"},
            {"path": "typify-impl/src/convert.rs", "fn": "convert_integer"},
        ],
        "clauses": [
            "P1 validate_value on a leaf kind (Unit, Boolean, Integer, Float, String): Ok ==> the default has the JSON type of the kind",
            "P2 Ok(Intrinsic) ==> the default equals the kind's Rust Default (null, false, 0, 0.0, \"\")",
            "P3 Ok(Generic(g)) ==> g matches the kind and sign (Boolean/true, U64, NZU64 for NonZero types, I64 for negatives)",
            "P1e an externally tagged enum of simple variants accepts a string default only if it is exactly a variant's wire name",
            "P4a/P4b has_default: Optional only for the kind's intrinsic default (or for Option/Vec/Map/Unit without default), Default(d) carries d unchanged, a schema default is never dropped",
            "numeric default outside the admitted integer range is rejected when the schema is added: C10/P3 (convert_integer), proved there",
        ],
        "not_decided": [
            "nested defaults (Option / Vec / Map / Tuple / Struct / Enum kinds need the id graph: B-trees with several entries)",
            "rendering of defaults to Rust expressions (value.rs) and emission of Default impls / default functions (token templates)",
            "Native kinds: validate_value accepts every default by design (the code's own comment says an invalid one fails an unwrap() in generated code)",
        ],
        "checker_cmd": "cargo kani -p typify-impl --exact --harness <each>",
        "trusted_base": ["Kani 0.68.0 / CBMC 6.11.0", "kani/common.rs", "serde_json::Number / Value constructors"],
        "explanation": "Partial claim: leaf default validation is proved type-sound for every JSON value shape (symbolic u64 / i64 / f64 payloads, empty and one non-empty string, empty containers); kinds are concrete per harness.",
        "assumptions": COMMON_ASSUMPTIONS + ["non-empty strings are represented by the literal \"x\", non-empty containers are not probed (leaf kinds reject every container by its discriminant)"],
    },
    "C07": {
        "level": "other",
        "kani": {"units": ["c07_children"], "timeout_quick": 900, "timeout_thorough": 1800},
        "functions": [
            {"path": "typify-impl/src/cycles.rs", "fn": "get_child_ids"},
        ],
        "clauses": [
            "P1 get_child_ids returns exactly the by-value children of an entry, per kind (18 kinds, 4 variant shapes): none for Box / Vec / Map / Set / Native / Reference / scalars",
            "F1 the returned slots alias the entry: writing through them re-points exactly the by-value children",
        ],
        "not_decided": [
            "break_cycles itself (the depth-first traversal with the active set): no result from Kani on two nodes (B-tree sets/maps), rejected by Verus (Vec<&mut T>, flat_map, partition, closures capturing &mut self) -- a change inside the traversal is NOT detected",
            "'no box without a cycle' and round-tripping of recursive values",
        ],
        "checker_cmd": "cargo kani -p typify-impl --exact --harness <each>",
        "trusted_base": ["Kani 0.68.0 / CBMC 6.11.0", "kani/te_support.rs constructors"],
        "explanation": "Partial claim: the edge relation of the containment graph is exact; child vectors have at most 2 elements per variant / struct (bounded, the function is a structural map).",
        "assumptions": COMMON_ASSUMPTIONS,
    },
    "C08": {
        "level": "other",
        "kani": {"units": ["c08_recase"], "timeout_quick": 1200, "timeout_thorough": 3600},
        "functions": [
            {"path": "typify-impl/src/util.rs", "fn": "recase"},
        ],
        "clauses": [
            "P1 recase: rename == None <=> identifier == JSON name",
            "P2 recase: rename == Some(r) ==> r == JSON name exactly",
        ],
        "not_decided": [
            "identifier validity of sanitize (reaches syn::parse_str: Kani compiler crash; heck's Unicode casing)",
            "distinctness of identifiers within a scope (variant-name uniqueness reaches sanitize and HashSet; field-name distinctness is not the postcondition of any function)",
            "the rename attribute actually emitted (token templates)",
        ],
        "checker_cmd": "cargo kani -p typify-impl -Z stubbing --exact --harness <each>",
        "trusted_base": ["Kani 0.68.0 / CBMC 6.11.0", "stub_sanitize (arbitrary string of <= 2 ASCII letters)"],
        "explanation": "Partial claim: wire-name fidelity holds for every sanitiser (sanitize replaced by an arbitrary string) and every JSON name of at most 2 Unicode scalar values.",
        "assumptions": COMMON_ASSUMPTIONS + ["sanitize is replaced by a nondeterministic stub; a refutation cannot be replayed natively and is reported with no-failing-input-found"],
    },
    "C09": {
        "level": "other",
        "kani": {"units": ["c09_merge"], "timeout_quick": 1500, "timeout_thorough": 3600},
        "functions": [
            {"path": "typify-impl/src/merge.rs", "fn": "merge_so_instance_type"},
            {"path": "typify-impl/src/merge.rs", "fn": "merge_so_format"},
            {"path": "typify-impl/src/merge.rs", "fn": "choose_value"},
        ],
        "clauses": [
            "P1-P4 merge_so_instance_type (absent / single / array-of-2 arms except array x array): no value class valid under both is lost, never only if unsatisfiable, disjoint never permissive, order independent",
            "P5-P6 merge_so_format on enumerated literal pairs: commutative, result is one of the inputs, equal inputs merge to themselves, absent is the identity, Err only for formats without a common instance",
            "P7 choose_value: tighter bound / disjunction",
        ],
        "not_decided": [
            "merge_schema, merge_so_object, merge_so_array beyond choose_value, distribution over anyOf / oneOf / not, roughly-equal reference preservation, the array x array arm of merge_so_instance_type (B-tree sets): outside Kani's reach",
            "merge_so_number / merge_so_string panic (unimplemented!) on two different validations",
            "agreement of the compiled merged type with validation semantics",
        ],
        "checker_cmd": "cargo kani -p typify-impl --exact --harness <each>",
        "trusted_base": ["Kani 0.68.0 / CBMC 6.11.0", "the seven-class abstraction of JSON values in the harness"],
        "explanation": "Partial claim: the leaf merges are intersections on a seven-class abstraction of JSON values; instance types are symbolic, format strings are enumerated literals.",
        "assumptions": COMMON_ASSUMPTIONS,
    },
    "C15": {
        "level": "other",
        "kani": [
            {"units": ["c15_cli"], "package": "verif-c15", "prepare": "c15_prepare", "timeout_quick": 1200, "timeout_thorough": 3600},
            {"units": ["c15_cratevers"], "timeout_quick": 1200, "timeout_thorough": 3600},
        ],
        "functions": [
            {"path": "cargo-typify/src/lib.rs", "fn": "from_str"},
            {"path": "cargo-typify/src/lib.rs", "fn": "output_path"},
            {"path": "cargo-typify/src/lib.rs", "fn": "use_builder"},
            {"path": "typify-impl/src/lib.rs", "fn": "parse", "impl": r"^impl CrateVers\b"},
        ],
        "clauses": [
            "P1 every crate name over [A-Za-z][A-Za-z0-9_-]{0,2} with version `*` (and rename=crate@* likewise) is accepted with exactly that name / rename",
            "P2 `*` => Any, `!` => Never, semver => Version, anything else rejected (enumerated literals)",
            "P3 output path: `-` => stdout, given path kept, default = input with extension rs (enumerated literals)",
            "P4 use_builder == !no_builder",
        ],
        "not_decided": [
            "token-for-token equality of macro, CLI and builder output",
            "the macro's option mapping (proc-macro crate) and the CLI's mapping of options onto settings in convert()",
            "writes nothing on failure (I/O in main.rs)",
        ],
        "checker_cmd": "python3 lib/c15_prepare.py (extraction) && cargo kani -p verif-c15 --exact --harness <each>; cargo kani -p typify-impl --exact --harness c15_cratevers_literals",
        "trusted_base": ["Kani 0.68.0 / CBMC 6.11.0", "lib/c15_prepare.py drop list E1-E3 (clap attributes removed)", "semver crate"],
        "explanation": "Partial claim: the CLI's crate-specifier grammar, version meaning, output-path rule and builder flag on mechanically extracted text; crate names are symbolic characters at concrete positions.",
        "assumptions": COMMON_ASSUMPTIONS + ["clap feeds --crate values to CrateSpec::from_str unchanged (value_parser inferred from FromStr)"],
    },
    "C17": {
        "level": "other",
        "kani": {"units": ["c17_has_impl", "c10_string"], "timeout_quick": 1500, "timeout_thorough": 3600},
        "functions": [
            {"path": "typify-impl/src/type_entry.rs", "fn": "has_impl"},
            {"path": "typify-impl/src/convert.rs", "fn": "convert_string"},
        ],
        "clauses": [
            "P1 has_impl(kind, X) ==> the built-in Rust type implements X (bool, integers incl. NonZero, floats, String, (), serde_json::Value, Option/Vec/Map/Set)",
            "P2 a native type claims exactly the impls it was registered with",
            "P3 a struct claims Default iff it carries a default value",
            "F1 whenever convert_string chooses a ::uuid / ::chrono path the matching uses_* flag is set (every format string of at most 10 bytes)",
        ],
        "not_decided": [
            "every clause relating the API to emitted items: properties == fields, variants, builder presence, has_impl for named types vs emitted impls (e.g. Display claimed for constrained string newtypes), uses_serde_json / uses_regress on the remaining conversion paths",
        ],
        "checker_cmd": "cargo kani -p typify-impl -Z stubbing --exact --harness <each>",
        "trusted_base": ["Kani 0.68.0 / CBMC 6.11.0", "the literal table of std trait facts in the harness"],
        "explanation": "Partial claim: has_impl against a literal table of std facts for the kinds whose Rust type is known without emitted items; uses_uuid / uses_chrono on the string-format path.",
        "assumptions": COMMON_ASSUMPTIONS,
    },
}
