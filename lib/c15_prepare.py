#!/usr/bin/env python3
"""C15: mechanical extraction of the CLI argument layer of cargo-typify into a generated
crate that Kani can build (cargo-typify itself cannot be built by `cargo kani`: its
dependency backtrace 0.3.71 does not compile under Kani's macro overrides).

Extracted from cargo-typify/src/lib.rs, text unchanged except for the drop list:
    struct CliArgs                (E1: every attribute `#[...]` and doc comment removed -- these
                                   are the clap derive and its `#[command]` / `#[arg]` options)
    impl CliArgs { output_path, use_builder }
    struct CrateSpec              (E2: `struct` widened to `pub struct`, fields to `pub`, so the
                                   harness module can read the parsed fields)
    impl std::str::FromStr for CrateSpec   (with its inner fns is_crate and convert)
    convert() [slice]             (E4: the statements that build `settings` from the arguments, from
                                   `let mut settings = TypeSpaceSettings::default();` to just before
                                   `let mut type_space = ..`, wrapped as
                                   `pub fn verif_slice_build_settings(args: &CliArgs) -> TypeSpaceSettings`)
Header written by the extractor: `use std::path::PathBuf; use typify_impl::{CrateVers, TypeSpaceSettings, UnknownPolicy};`
(E3: `typify::CrateVers` is a re-export of `typify_impl::CrateVers`; `Result` in the FromStr
impl is spelled `std::result::Result` because the eyre alias is not imported).
"""
import hashlib
import json
import os
import re
import sys

sys.path.insert(0, os.path.dirname(os.path.abspath(__file__)))
from vcommon import strip_strings_and_comments, match_brace


class Lost(Exception):
    pass


def strip_attrs_and_docs(text):
    """E1: remove `#[...]` attributes (possibly multi-line) and doc/line comments."""
    clean = strip_strings_and_comments(text)
    out, i, n = [], 0, len(text)
    while i < n:
        if clean.startswith("#[", i):
            depth, j = 0, i + 1
            while j < n:
                if clean[j] == "[":
                    depth += 1
                elif clean[j] == "]":
                    depth -= 1
                    if depth == 0:
                        break
                j += 1
            i = j + 1
            continue
        out.append(text[i])
        i += 1
    text = "".join(out)
    lines = [l for l in text.split("\n") if not l.strip().startswith("//")]
    lines = [l for l in lines if l.strip() != "" or True]
    # collapse blank runs
    res = []
    for l in lines:
        if l.strip() == "" and res and res[-1].strip() == "":
            continue
        res.append(l)
    return "\n".join(res)


def take(src, clean, header_re, name):
    m = re.compile(header_re, re.M).search(clean)
    if not m:
        raise Lost("anchor not found: " + name)
    ob = clean.find("{", m.end() - 1)
    end = match_brace(clean, ob) + 1
    return src[m.start():end], (src.count("\n", 0, m.start()) + 1, src.count("\n", 0, end) + 1)


def extract(repo_dir):
    p = os.path.join(repo_dir, "cargo-typify/src/lib.rs")
    src = open(p).read()
    clean = strip_strings_and_comments(src)
    items = []
    cli, sp1 = take(src, clean, r"^pub struct CliArgs\b", "struct CliArgs")
    impl_cli, sp2 = take(src, clean, r"^impl CliArgs\b", "impl CliArgs")
    spec, sp3 = take(src, clean, r"^struct CrateSpec\b", "struct CrateSpec")
    from_str, sp4 = take(src, clean, r"^impl std::str::FromStr for CrateSpec\b", "impl FromStr for CrateSpec")
    for name, text, sp in (("struct CliArgs", cli, sp1), ("impl CliArgs", impl_cli, sp2),
                           ("struct CrateSpec", spec, sp3), ("impl FromStr for CrateSpec", from_str, sp4)):
        items.append({"item": name, "file": "cargo-typify/src/lib.rs", "lines": "%d-%d" % sp,
                      "sha256_repo_text": hashlib.sha256(text.encode()).hexdigest()})
    cli2 = strip_attrs_and_docs(cli)
    # the private fields of CliArgs become visible to the harness module (child module: already visible)
    impl_cli2 = "\n".join(l for l in impl_cli.split("\n") if not l.strip().startswith("//"))
    spec2 = spec.replace("struct CrateSpec", "pub struct CrateSpec", 1)
    spec2 = re.sub(r"^(\s+)(name|version|rename):", r"\1pub \2:", spec2, flags=re.M)
    if "fn from_str(s: &str) -> Result<Self, Self::Err>" not in from_str:
        raise Lost("FromStr::from_str signature changed")
    from_str2 = from_str.replace("fn from_str(s: &str) -> Result<Self, Self::Err>",
                                 "fn from_str(s: &str) -> std::result::Result<Self, Self::Err>")
    # E4: the settings-building statements of convert() -- from `let mut settings = ..default();`
    # up to (excluding) `let mut type_space = TypeSpace::new(&settings);` -- as a function
    conv, spc = take(src, clean, r"^pub fn convert\b", "fn convert")
    m1 = re.search(r"^    let mut settings = TypeSpaceSettings::default\(\);\n", conv, re.M)
    m2 = re.search(r"^    let mut type_space = TypeSpace::new\(&settings\);", conv, re.M)
    if not m1 or not m2 or m2.start() < m1.start():
        raise Lost("settings-building slice of convert()")
    slice_text = conv[m1.start():m2.start()].rstrip() + "\n"
    l1 = spc[0] + conv.count("\n", 0, m1.start())
    items.append({"item": "convert() [settings-building slice]", "file": "cargo-typify/src/lib.rs",
                  "lines": "%d-%d" % (l1, l1 + slice_text.count("\n") - 1),
                  "sha256_repo_text": hashlib.sha256(slice_text.encode()).hexdigest()})
    build_settings = ("pub fn verif_slice_build_settings(args: &CliArgs) -> TypeSpaceSettings {\n"
                      + slice_text + "    settings\n}\n")
    lib = ("// GENERATED by /verif/lib/c15_prepare.py from cargo-typify/src/lib.rs -- do not edit.\n"
           "#![allow(dead_code)]\n"
           "use std::path::PathBuf;\nuse typify_impl::{CrateVers, TypeSpaceSettings, UnknownPolicy};\n\n"
           + cli2 + "\n\n" + impl_cli2 + "\n\n#[derive(Debug, Clone)]\n" + spec2 + "\n\n" + from_str2 + "\n\n" + build_settings)
    return lib, items


def prepare(ws_dir):
    try:
        lib, items = extract(ws_dir)
    except Lost as e:
        import kani_engine
        raise kani_engine.LostAnchor(str(e))
    d = os.path.join(ws_dir, "verif-c15")
    os.makedirs(os.path.join(d, "src"), exist_ok=True)
    open(os.path.join(d, "src", "lib.rs"), "w").write(lib)
    open(os.path.join(d, "Cargo.toml"), "w").write(
        '[package]\nname = "verif-c15"\nversion = "0.0.0"\nedition = "2021"\npublish = false\n\n'
        '[dependencies]\ntypify-impl = { path = "../typify-impl" }\n')
    top = os.path.join(ws_dir, "Cargo.toml")
    s = open(top).read()
    if '"verif-c15"' not in s:
        s = s.replace("members = [", 'members = [\n\t"verif-c15",', 1)
        open(top, "w").write(s)
    json.dump(items, open(os.path.join(d, "extraction.json"), "w"), indent=1)


if __name__ == "__main__":
    lib, items = extract(sys.argv[1] if len(sys.argv) > 1 else "/repo")
    print(lib)
