#!/usr/bin/env python3
"""C16: mechanical extraction of the identifier pre-assignment slice of
`TypeSpace::add_ref_types_impl` for Kani (Verus rejects `iter().enumerate()`).

The statements from `let base_id = self.next_id;` to the end of the first `for` loop of
add_ref_types_impl are copied unchanged and wrapped, in the scratch copy only, as

    #[cfg(kani)]
    impl TypeSpace {
        pub(crate) fn verif_slice_add_ref_types_head(&mut self, definitions: &Vec<(RefKey, Schema)>) -> (u64, u64) {
            <slice text>
            (base_id, def_len)
        }
    }

appended to typify-impl/src/lib.rs. In the original `definitions` is a local
`Vec<(RefKey, Schema)>`; the slice uses it only through `.len()` and `.iter()`, so a `&Vec`
parameter leaves the text unchanged.
"""
import hashlib
import json
import os
import re
import sys

sys.path.insert(0, os.path.dirname(os.path.abspath(__file__)))
from vcommon import strip_strings_and_comments, find_item, match_brace


def extract(repo_dir):
    p = os.path.join(repo_dir, "typify-impl/src/lib.rs")
    src = open(p).read()
    clean = strip_strings_and_comments(src)
    sp = find_item(src, r"^    fn add_ref_types_impl\b", clean)
    if not sp:
        raise RuntimeError("lost anchor: fn add_ref_types_impl")
    body, cbody = src[sp[0]:sp[1]], clean[sp[0]:sp[1]]
    m1 = re.search(r"^        let base_id = self\.next_id;\n", cbody, re.M)
    m2 = re.search(r"^        for \(index, \(ref_name, schema\)\) in definitions\.iter\(\)\.enumerate\(\) \{", cbody, re.M)
    if not m1 or not m2 or m2.start() < m1.start():
        raise RuntimeError("lost anchor: pre-assignment slice of add_ref_types_impl")
    ob = cbody.find("{", m2.end() - 1)
    end = match_brace(cbody, ob) + 1
    text = body[m1.start():end]
    if re.search(r"\bdefinitions\b(?!\.len\(\)|\.iter\(\)|\.insert)", strip_strings_and_comments(text).replace("self.definitions", "self_definitions")):
        raise RuntimeError("the slice uses `definitions` other than through len()/iter()")
    l1 = src.count("\n", 0, sp[0] + m1.start()) + 1
    return text, {"item": "TypeSpace::add_ref_types_impl [pre-assignment slice]", "file": "typify-impl/src/lib.rs",
                  "lines": "%d-%d" % (l1, l1 + text.count("\n")), "sha256_repo_text": hashlib.sha256(text.encode()).hexdigest()}


def prepare(ws_dir):
    try:
        text, item = extract(ws_dir)
    except RuntimeError as e:
        import kani_engine
        raise kani_engine.LostAnchor(str(e))
    wrapper = ("\n#[cfg(kani)]\nimpl TypeSpace {\n"
               "    pub(crate) fn verif_slice_add_ref_types_head(&mut self, definitions: &Vec<(RefKey, Schema)>) -> (u64, u64) {\n"
               + text + "\n        (base_id, def_len)\n    }\n}\n")
    with open(os.path.join(ws_dir, "typify-impl/src/lib.rs"), "a") as f:
        f.write(wrapper)
    json.dump([item], open(os.path.join(ws_dir, "verif-c16-extraction.json"), "w"), indent=1)


if __name__ == "__main__":
    print(extract(sys.argv[1] if len(sys.argv) > 1 else "/repo")[0])
