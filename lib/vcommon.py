#!/usr/bin/env python3
"""Shared helpers: function spans in Rust source, evidence files, known findings,
assumption scan."""
import hashlib
import json
import os
import re
import time

VERIF = os.path.dirname(os.path.dirname(os.path.abspath(__file__)))
REPO = os.environ.get("VERIF_REPO", "/repo")


def strip_strings_and_comments(src):
    """Return src with string/char literals and comments blanked (same length),
    so braces can be matched textually."""
    out = list(src)
    i, n = 0, len(src)
    while i < n:
        c = src[i]
        if src.startswith("//", i):
            j = src.find("\n", i)
            j = n if j < 0 else j
            for k in range(i, j):
                out[k] = " "
            i = j
        elif src.startswith("/*", i):
            depth, j = 1, i + 2
            while j < n and depth:
                if src.startswith("/*", j):
                    depth += 1
                    j += 2
                elif src.startswith("*/", j):
                    depth -= 1
                    j += 2
                else:
                    j += 1
            for k in range(i, j):
                if out[k] != "\n":
                    out[k] = " "
            i = j
        elif c == '"' or (c == "r" and re.match(r'r#*"', src[i:i + 8]) and (i == 0 or not (src[i - 1].isalnum() or src[i - 1] == "_"))) \
                or (c == "b" and src.startswith('b"', i) and (i == 0 or not (src[i - 1].isalnum() or src[i - 1] == "_"))):
            if c == "b":
                i += 1
                c = src[i]
            if c == "r":
                m = re.match(r'r(#*)"', src[i:])
                hashes = m.group(1)
                start = i
                end = src.find('"' + hashes, i + len(m.group(0)))
                end = n if end < 0 else end + 1 + len(hashes)
                for k in range(start, end):
                    if out[k] != "\n":
                        out[k] = " "
                i = end
            else:
                j = i + 1
                while j < n and src[j] != '"':
                    j += 2 if src[j] == "\\" else 1
                for k in range(i + 1, min(j, n)):
                    if out[k] != "\n":
                        out[k] = " "
                i = j + 1
        elif c == "'":
            # char literal or lifetime
            m = re.match(r"'(\\.[^']*|[^'\\])'", src[i:])
            if m:
                for k in range(i + 1, i + len(m.group(0)) - 1):
                    out[k] = " "
                i += len(m.group(0))
            else:
                i += 1
        else:
            i += 1
    return "".join(out)


def match_brace(clean, open_idx):
    depth = 0
    for j in range(open_idx, len(clean)):
        if clean[j] == "{":
            depth += 1
        elif clean[j] == "}":
            depth -= 1
            if depth == 0:
                return j
    raise ValueError("unbalanced braces")


def find_item(src, header_re, clean=None, start=0):
    """Find the first item whose header matches header_re (a regex that ends
    before the opening brace). Returns (start_idx, end_idx_exclusive) covering
    header through closing brace, or None."""
    clean = clean if clean is not None else strip_strings_and_comments(src)
    m = re.compile(header_re, re.M).search(clean, start)
    if not m:
        return None
    ob = clean.find("{", m.end() - 1 if clean[m.end() - 1] == "{" else m.end())
    # make sure no ';' ends the item before the brace (declaration without body)
    semi = clean.find(";", m.end())
    if ob < 0 or (0 <= semi < ob):
        return None
    cb = match_brace(clean, ob)
    return (m.start(), cb + 1)


def fn_span(rel_path, fn_name, impl_hint=None, repo=None):
    """Locate `fn <name>` in a /repo file; returns dict(path, fn, lines, sha256) or None.
    impl_hint: regex for an enclosing `impl` header to search inside."""
    repo = repo or REPO
    p = os.path.join(repo, rel_path)
    if not os.path.exists(p):
        return None
    src = open(p).read()
    clean = strip_strings_and_comments(src)
    lo, hi = 0, len(src)
    if impl_hint:
        sp = find_item(src, impl_hint, clean)
        if not sp:
            return None
        lo, hi = sp
    pat = r"^[ \t]*(?:pub(?:\([a-z]+\))?\s+)?(?:const\s+)?fn\s+%s\b" % re.escape(fn_name)
    m = re.compile(pat, re.M).search(clean, lo, hi)
    if not m:
        return None
    sp = find_item(src, pat, clean, m.start())
    if not sp:
        return None
    a, b = sp
    text = src[a:b]
    l1 = src.count("\n", 0, a) + 1
    l2 = src.count("\n", 0, b) + 1
    return {
        "path": rel_path,
        "fn": fn_name,
        "lines": "%d-%d" % (l1, l2),
        "sha256": hashlib.sha256(text.encode()).hexdigest(),
    }


def load_known_findings():
    path = os.path.join(VERIF, "known_findings.txt")
    findings, fixed = [], []
    if os.path.exists(path):
        for line in open(path):
            line = line.strip()
            if line.startswith("finding:"):
                body = line[len("finding:"):].strip()
                head, _, text = body.partition(" -- ")
                kv = dict(x.split("=", 1) for x in head.split() if "=" in x)
                kv["text"] = text.strip()
                findings.append(kv)
            elif line.startswith("fixed:"):
                fixed.append(line)
    return findings, fixed


def scan_assumptions(paths):
    """Mechanical scan of /verif's own sources for unchecked assumptions."""
    pats = [r"kani::assume", r"#\[kani::stub", r"external_body", r"assume_specification", r"\badmit\(", r"\bassume\(",
            r"external_type_specification", r"MaybeUninit", r"accept_rec"]
    hits = []
    for p in paths:
        if not os.path.exists(p):
            continue
        for i, line in enumerate(open(p), 1):
            if line.lstrip().startswith("//"):
                continue
            for pat in pats:
                if re.search(pat, line):
                    hits.append("%s:%d: %s" % (os.path.relpath(p, VERIF), i, line.strip()[:160]))
                    break
    return hits


def write_evidence(pid, ev):
    edir = os.environ.get("VERIF_EVIDENCE_DIR", os.path.join(VERIF, "evidence"))  # overridden only by seed runs
    os.makedirs(edir, exist_ok=True)
    path = os.path.join(edir, pid + ".json")
    tmp = path + ".tmp"
    with open(tmp, "w") as f:
        json.dump(ev, f, indent=1, sort_keys=False)
        f.write("\n")
    os.replace(tmp, path)
    return path


class Clock:
    """time.time() is unreliable in this sandbox (clock jumps); use the monotonic clock."""

    def __init__(self):
        self.t0 = time.monotonic()

    def elapsed(self):
        return round(time.monotonic() - self.t0, 1)
