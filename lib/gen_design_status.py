#!/usr/bin/env python3
"""Rewrite the block between <!-- STATUS:BEGIN --> and <!-- STATUS:END --> in DESIGN.md from
lib/props.py (what each claimed check decides / does not decide) and seeded/*/meta.json."""
import glob, json, os, re, sys
sys.path.insert(0, os.path.dirname(os.path.abspath(__file__)))
from props import PROPS
V = os.path.dirname(os.path.dirname(os.path.abspath(__file__)))
out = []
out.append("### 7.8 Per-property status as built (generated from lib/props.py)\n")
for pid in sorted(PROPS):
    c = PROPS[pid]
    eng = []
    if "kani" in c:
        groups = c["kani"] if isinstance(c["kani"], list) else [c["kani"]]
        eng.append("Kani units: " + ", ".join(u for g in groups for u in g["units"]))
    if "verus" in c:
        eng.append("Verus: " + ", ".join(c["verus"]["functions"]) + (" (only " + ", ".join(c["verus"]["only"]) + ")" if c["verus"].get("only") else ""))
    out.append("**%s** (level `%s`; %s)\n" % (pid, c["level"], "; ".join(eng)))
    out.append("Decided:\n")
    for x in c.get("clauses", []):
        out.append("* " + x)
    out.append("\nNot decided:\n")
    for x in c.get("not_decided", []):
        out.append("* " + x)
    out.append("")
status_block = "\n".join(out)
out = []
out.append("## 9. Seeded changes: which checks catch which\n")
out.append("Each change was proposed by a fresh sub-agent that saw only the property text and its own scratch worktree, then confirmed here independently (`lib/confirm_seed.py`: demo passes on the unchanged tree, fails with the change, full suite passes with the change) and kept under `seeded/<name>/`. `lib/run_seed.py` runs the property's registered check against a copy of the tree with the patch applied.\n")
metas = [json.load(open(p)) for p in sorted(glob.glob(os.path.join(V, "seeded", "*", "meta.json")))]
caught = [m for m in metas if m.get("detected_by")]
NATIVE_HARNESSES = set()
for f in glob.glob(os.path.join(V, "kani", "*.rs")):
    for line in open(f):
        mm = re.match(r"// @h (\S+) .*tier=native", line)
        if mm:
            NATIVE_HARNESSES.add(mm.group(1))
class _Pat:
    def search(self, h):
        return "(native)" in h or h.startswith("native/") or h.split("/")[0] in NATIVE_HARNESSES
NATIVE_PAT = _Pat()
def only_native(m):
    for d in m["detected_by"]:
        for h in d.split(": ", 1)[-1].split(","):
            if not NATIVE_PAT.search(h):
                return False
    return True
native = [m for m in caught if only_native(m)]
out.append("Three rounds (round 1: `Cxx-sK`, 30 changes; round 2: `Cxx-r2sK`, 15 changes for C06 C09 C10 C16 C17; round 3: `Cxx-r3sK`, 15 changes for C05 C07 C08 C13 C15, each round told the earlier rounds' changes and asked for different ones). **%d of %d are caught** by the registered quick check; of those, %d are caught only by a BOUNDED native stand-in or native fallback (§7.9) -- a literal instance happened to expose them -- not by a discharged obligation. The remaining %d are token templates, the proc-macro crate, file I/O, or functions in reach of neither verifier for which no literal instance was written; each row says which.\n" % (len(caught), len(metas), len(native), len(metas) - len(caught)))
out.append("What the rounds changed in the machinery: round 1 led to the routing contracts (§7.7) and to every format row in C10's quick tier; round 2 to `c09_routing`, `c09_object`, `c17_facade`, `c17_builder`, the native history fallback for Verus and the native run of timed-out literal harnesses; round 3 to the `tier=native` stand-ins for `sanitize`, `break_cycles`, the whole of `convert_rust_extension`, the multi-type arm, and to the C08 defect repaired by fd98916; the continuation session added the `type_ident` stand-ins (C17-s2, C05-r3s2).\n")
out.append("| seed | change | needs | result of the check |")
out.append("|------|--------|-------|---------------------|")
for p in sorted(glob.glob(os.path.join(V, "seeded", "*", "meta.json"))):
    m = json.load(open(p))
    name = os.path.basename(os.path.dirname(p))
    res = m.get("check_results") or {}
    if m.get("detected_by"):
        r = "**caught**: " + "; ".join(m["detected_by"])
    elif res:
        r = "not caught (" + "; ".join("%s exit %s" % (k, v["exit"]) for k, v in res.items()) + ")" + (" -- " + m["why_missed"] if m.get("why_missed") else "")
    else:
        r = "not run" + (" -- " + m["why_missed"] if m.get("why_missed") else "")
    out.append("| %s | %s | %s | %s |" % (name, (m.get("breaks") or "").replace("|", "\\|"), (m.get("needs_to_manifest") or "").replace("|", "\\|"), r.replace("|", "\\|")))
out.append("")
seeded_block = "\n".join(out)
p = os.path.join(V, "DESIGN.md")
s = open(p).read()
s = re.sub(r"<!-- STATUS:BEGIN -->.*<!-- STATUS:END -->", lambda m: "<!-- STATUS:BEGIN -->\n" + status_block + "\n<!-- STATUS:END -->", s, flags=re.S)
s = re.sub(r"<!-- SEEDED:BEGIN -->.*<!-- SEEDED:END -->", lambda m: "<!-- SEEDED:BEGIN -->\n" + seeded_block + "\n<!-- SEEDED:END -->", s, flags=re.S)
open(p, "w").write(s)
print("DESIGN.md status block: %d lines" % len(out))
