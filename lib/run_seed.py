#!/usr/bin/env python3
"""run_seed.py <seed name> [--tier quick|thorough] [--props C10,C17]

Apply /verif/seeded/<name>/patch.diff to /repo, run the registered check(s) of the seed's
property against it, undo the patch straight afterwards, and record in meta.json which
obligations caught it."""
import json, os, re, subprocess, sys
VERIF = os.path.dirname(os.path.dirname(os.path.abspath(__file__)))
name = sys.argv[1]
tier = sys.argv[sys.argv.index("--tier") + 1] if "--tier" in sys.argv else "quick"
d = os.path.join(VERIF, "seeded", name)
meta = json.load(open(os.path.join(d, "meta.json")))
props = sys.argv[sys.argv.index("--props") + 1].split(",") if "--props" in sys.argv else [meta["property"]]
# a scratch copy of /repo's working tree with the patch applied (so that other checks can go on
# using /repo meanwhile); equivalent to `git -C /repo apply` + check + `git -C /repo checkout -- .`
import shutil
copy = "/var/tmp/seedrepo-" + name
shutil.rmtree(copy, ignore_errors=True)
subprocess.run(["rsync", "-a", "--exclude", "/target", "--exclude", "/.git", "/repo/", copy + "/"], check=True)
subprocess.run(["patch", "-p1", "-s", "-d", copy, "-i", os.path.join(d, "patch.diff")], check=True)
results = {}
try:
    for p in props:
        env = dict(os.environ)
        env["VERIF_TAG"] = p + "-" + name
        env["VERIF_REPO"] = copy
        env["VERIF_EVIDENCE_DIR"] = "/var/tmp/seed-evidence"
        r = subprocess.run([os.path.join(VERIF, "bin", "check"), p, "--tier", tier], capture_output=True, text=True, env=env, cwd=VERIF)
        out = r.stdout + r.stderr
        results[p] = {
            "exit": r.returncode, "tier": tier,
            "failed_obligations": re.findall(r"^FAILED-OBLIGATION .*obligation=(\S+)", out, re.M),
            "violation_lines": re.findall(r"^VIOLATION .*$", out, re.M),
            "undecided": re.findall(r"^UNDECIDED .*$", out, re.M)[:6],
        }
        print(p, json.dumps(results[p], indent=1))
finally:
    shutil.rmtree(copy, ignore_errors=True)
    for p in props:
        shutil.rmtree(os.path.join(VERIF, "work", "kani-target", p + "-" + name), ignore_errors=True)
        shutil.rmtree(os.path.join(VERIF, "work", "kani-target", p + "-" + name + "-playback"), ignore_errors=True)
meta.setdefault("detected_by", None)
meta["check_results"] = {**meta.get("check_results", {}), **{"%s/%s" % (p, tier): v for p, v in results.items()}}
det = [p for p, v in results.items() if v["exit"] == 1]
if det:
    meta["detected_by"] = sorted(set((meta.get("detected_by") or []) + ["%s %s: %s" % (p, tier, ",".join(results[p]["failed_obligations"])) for p in det]))
json.dump(meta, open(os.path.join(d, "meta.json"), "w"), indent=1)
