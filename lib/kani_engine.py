#!/usr/bin/env python3
"""Engine K: run Kani harness units against a scratch copy of /repo's working tree.

The harness files live in /verif/kani/*.rs. Each begins with annotation lines:

    // @unit <name> property=<Cxx> attach=<path of the /repo source file>
    // @h <harness fn> tier=quick|thorough [timeout=<s>] [bounded=<text>] [stubs=<text>]
    // @canary <harness fn>

`attach` is the source file the unit is appended to (as a child module, so the
file's private items are visible):  `#[cfg(kani)] #[path = "..."] mod verif_<unit>;`
The line is appended in the scratch copy only; /repo is never written.
"""
import hashlib
import json
import os
import re
import shutil
import signal
import subprocess
import sys
import threading
import time

VERIF = os.path.dirname(os.path.dirname(os.path.abspath(__file__)))
REPO = os.environ.get("VERIF_REPO", "/repo")
SCRATCH_ROOT = os.environ.get("VERIF_SCRATCH", "/var/tmp/typify-verif")
TARGET_DIR = os.environ.get("VERIF_KANI_TARGET", os.path.join(VERIF, "work", "kani-target"))
# one shared target directory for every native (playback) build: results are read from the test
# output, not from the directory, and cargo serialises concurrent builds on its lock
PLAYBACK_TARGET = os.path.join(TARGET_DIR, "_playback")
RSS_LIMIT_KB = int(os.environ.get("VERIF_RSS_LIMIT_GB", "14")) * 1024 * 1024

CARGO_CONFIG = """[source.crates-io]
replace-with = "verif-vendor"
[source.verif-vendor]
directory = "%s/.vendor"
[net]
offline = true
""" % VERIF


class Unit:
    def __init__(self, path):
        self.path = path
        self.name = None
        self.property = None
        self.attach = None
        self.harnesses = []  # dicts: name, tier, timeout, bounded
        self.canaries = []
        self.native_canaries = []  # must FAIL when executed natively (vacuity guard of tier=native)
        self.needs = []
        self.public = False
        for line in open(path):
            if not line.startswith("//"):
                break
            m = re.match(r"// @unit (\S+)(.*)", line)
            if m:
                self.name = m.group(1)
                kv = dict(x.split("=", 1) for x in m.group(2).split())
                self.property = kv.get("property")
                self.attach = kv.get("attach")
                continue
            m = re.match(r"// @h (\S+)(.*)", line)
            if m:
                kv = dict(x.split("=", 1) for x in m.group(2).split())
                kv["name"] = m.group(1)
                self.harnesses.append(kv)
                continue
            m = re.match(r"// @canary (\S+)", line)
            if m:
                self.canaries.append(m.group(1))
            m = re.match(r"// @native-canary (\S+)", line)
            if m:
                self.native_canaries.append(m.group(1))
            if line.startswith("// @pub"):
                self.public = True  # attached as `pub mod` (visible to another crate of the workspace)
            m = re.match(r"// @needs (\S+)", line)
            if m:
                self.needs += m.group(1).split(",")
        if not self.name or not self.attach:
            raise RuntimeError("unit file %s lacks a @unit header" % path)

    def modpath(self):
        rel = self.attach
        rel = rel.split("/src/", 1)[1]
        rel = rel[:-3]  # .rs
        parts = [] if rel in ("lib", "main") else rel.split("/")
        if parts and parts[-1] == "mod":
            parts = parts[:-1]
        return "::".join(parts + ["verif_" + self.name])

    def fq(self, harness):
        return self.modpath() + "::" + harness


def load_units(names):
    """Load the named units plus, transitively, the support units they `@needs`."""
    out, seen, todo = [], set(), list(names)
    while todo:
        n = todo.pop(0)
        if n in seen:
            continue
        seen.add(n)
        u = Unit(os.path.join(VERIF, "kani", n + ".rs"))
        out.append(u)
        todo += u.needs
    return out


def sha256_file(p):
    return hashlib.sha256(open(p, "rb").read()).hexdigest()


class Workspace:
    """Scratch copy of /repo's working tree with the harness modules attached."""

    def __init__(self, tag, units, package="typify-impl", extra_prepare=None):
        # stable path per tag: cargo's artifact hashes depend on the workspace path,
        # so a stable path keeps the shared target dir bounded; a lock serialises
        # concurrent runs of the same tag.
        self.dir = os.path.join(SCRATCH_ROOT, tag)
        self.lock = None
        self.units = units
        self.package = package
        self.extra_prepare = extra_prepare

    def __enter__(self):
        os.makedirs(SCRATCH_ROOT, exist_ok=True)
        import fcntl
        self.lock = open(self.dir + ".lock", "w")
        fcntl.flock(self.lock, fcntl.LOCK_EX)
        if os.path.exists(self.dir):
            shutil.rmtree(self.dir)
        subprocess.run(
            ["rsync", "-a", "--exclude", "/target", "--exclude", "/.git", REPO + "/", self.dir + "/"],
            check=True,
        )
        os.makedirs(os.path.join(self.dir, ".cargo"), exist_ok=True)
        with open(os.path.join(self.dir, ".cargo", "config.toml"), "w") as f:
            f.write(CARGO_CONFIG)
        if self.extra_prepare:
            self.extra_prepare(self.dir)
        for u in self.units:
            src = os.path.join(self.dir, u.attach)
            if not os.path.exists(src):
                raise LostAnchor("attach file %s missing in working tree" % u.attach)
            with open(src, "a") as f:
                f.write('\n#[cfg(kani)]\n#[path = "%s"]\n%s mod verif_%s;\n' % (u.path, "pub" if u.public else "pub(crate)", u.name))
        return self

    def __exit__(self, *a):
        shutil.rmtree(self.dir, ignore_errors=True)
        if self.lock:
            self.lock.close()


class LostAnchor(Exception):
    pass


class Watchdog(threading.Thread):
    """Kill any cbmc process whose RSS exceeds the limit (one probe reached 19 GB)."""

    def __init__(self, root_pid):
        super().__init__(daemon=True)
        self.root = root_pid
        self.killed = []
        self.stop = False

    def run(self):
        while not self.stop:
            try:
                out = subprocess.run(
                    ["ps", "-eo", "pid,ppid,rss,comm"], capture_output=True, text=True
                ).stdout.splitlines()[1:]
                procs = {}
                for l in out:
                    f = l.split(None, 3)
                    if len(f) == 4:
                        procs[int(f[0])] = (int(f[1]), int(f[2]), f[3])
                for pid, (ppid, rss, comm) in procs.items():
                    if comm.startswith("cbmc") and rss > RSS_LIMIT_KB:
                        # only our descendants
                        p = pid
                        while p in procs and p != self.root and p > 1:
                            p = procs[p][0]
                        if p == self.root:
                            os.kill(pid, signal.SIGKILL)
                            self.killed.append((pid, rss))
            except Exception:
                pass
            time.sleep(2)


CHECK_RE = re.compile(
    r"^Check (\d+): (\S+)\n\s+- Status: (\S+)\n\s+- Description: \"(.*)\"\n\s+- Location: (.*)$",
    re.M,
)


def parse_result_file(path):
    """Parse one per-harness Kani result file (regular format)."""
    txt = open(path, errors="replace").read()
    checks = []
    for m in CHECK_RE.finditer(txt):
        checks.append(
            {"n": int(m.group(1)), "id": m.group(2), "status": m.group(3), "desc": m.group(4), "loc": m.group(5)}
        )
    verdict = None
    m = re.search(r"^VERIFICATION:- (\w+)", txt, re.M)
    if m:
        verdict = m.group(1)
    t = None
    m = re.search(r"^Verification Time: ([0-9.]+)s", txt, re.M)
    if m:
        t = float(m.group(1))
    timed_out = "CBMC timed out" in txt or "CBMC failed" in txt
    if timed_out:
        verdict = None
    return {"checks": checks, "verdict": verdict, "time": t, "raw_tail": txt[-3000:], "timed_out": timed_out}


TOOL_LIMIT_PAT = re.compile(
    r"unwinding assertion|unsupported|dereference failure|pointer|misaligned|invalid integer address"
    r"|is not currently supported|recursion unwinding|memory leak|deallocat|free argument|uninitialized"
    r"|Undefined Behavior|resume instruction|atomic|foreign function|concurrency|inline assembly|\[TOOL\]",
    re.I,
)


def classify(res, prop):
    """Classify the checks of one harness run.

    returns dict with:
      tagged: list of (tag, status, desc)     -- assertions whose description starts "[<prop>/"
      canary: list of statuses
      must_cover_bad: list of cover descriptions not SATISFIED
      info_cover_unsat
      panic_fail: built-in failures that denote a panic / arithmetic fault in reached code
      tool_fail: failures that denote a tool limit
      n_checks, n_success, n_unreachable, n_undetermined
    """
    out = {
        "tagged": [],
        "canary": [],
        "must_cover_bad": [],
        "must_cover_ok": 0,
        "info_cover": [],
        "panic_fail": [],
        "tool_fail": [],
        "n_checks": 0,
        "n_success": 0,
        "n_unreachable": 0,
        "n_undetermined": 0,
        "n_failure": 0,
        "foreign": [],
    }
    for c in res["checks"]:
        d, st = c["desc"], c["status"]
        if ".cover." in c["id"] or st in ("SATISFIED", "UNSATISFIABLE"):
            if d.startswith("[must]"):
                if st == "SATISFIED":
                    out["must_cover_ok"] += 1
                else:
                    out["must_cover_bad"].append((d, st))
            else:
                out["info_cover"].append((d, st))
            continue
        if d.startswith("[CANARY]"):
            out["canary"].append(st)
            continue
        out["n_checks"] += 1
        if st == "SUCCESS":
            out["n_success"] += 1
        elif st == "UNREACHABLE":
            out["n_unreachable"] += 1
        elif st == "UNDETERMINED":
            out["n_undetermined"] += 1
        elif st == "FAILURE":
            out["n_failure"] += 1
        m = re.match(r"\[(C\d+)/([A-Za-z0-9_.-]+)\]", d)
        if m and m.group(1) != prop:
            # an obligation of another property that shares this unit: decided by that property's check
            out["foreign"].append({"tag": m.group(1) + "/" + m.group(2), "status": st})
            continue
        if m:
            out["tagged"].append({"tag": m.group(2), "status": st, "desc": d, "loc": c["loc"], "id": c["id"]})
            continue
        if st == "FAILURE":
            if TOOL_LIMIT_PAT.search(d) or TOOL_LIMIT_PAT.search(c["id"]):
                out["tool_fail"].append({"desc": d, "loc": c["loc"], "id": c["id"]})
            else:
                out["panic_fail"].append({"desc": d, "loc": c["loc"], "id": c["id"]})
    return out


def run_kani(ws, fq_harnesses, timeout_s, jobs, log_path, extra_args=()):
    """One cargo-kani invocation over the given fully qualified harnesses.

    Per-harness results are written by Kani into <target>/result_output_dir/<fq name>.
    Returns (rc, stdout_text, result_dir).
    """
    # one target dir per workspace tag: Kani writes per-harness results to
    # <target>/result_output_dir/<harness>, which concurrent runs of the same harness names
    # (a seeded copy next to the unchanged tree) would overwrite
    target = os.path.join(TARGET_DIR, os.path.basename(ws.dir))
    result_dir = os.path.join(target, "result_output_dir")
    for h in fq_harnesses:
        try:
            os.remove(os.path.join(result_dir, h))
        except OSError:
            pass
    cmd = [
        "cargo", "kani", "-p", ws.package,
        "-Z", "stubbing", "-Z", "function-contracts", "-Z", "unstable-options",
        "--target-dir", target,
        "--exact",
        "--output-format", "terse", "--output-into-files",
        "--harness-timeout", "%ds" % timeout_s,
        "-j", str(jobs),
    ]
    for h in fq_harnesses:
        cmd += ["--harness", h]
    cmd += list(extra_args)
    env = dict(os.environ)
    env["CARGO_NET_OFFLINE"] = "true"
    env.pop("RUSTUP_TOOLCHAIN", None)
    with open(log_path, "w") as log:
        log.write("$ " + " ".join(cmd) + "\n")
        log.flush()
        p = subprocess.Popen(cmd, cwd=ws.dir, stdout=log, stderr=subprocess.STDOUT, env=env, start_new_session=True)
        wd = Watchdog(p.pid)
        wd.start()
        try:
            rc = p.wait(timeout=timeout_s * (1 + len(fq_harnesses) // max(1, jobs)) + 900)
        except subprocess.TimeoutExpired:
            os.killpg(p.pid, signal.SIGKILL)
            rc = -9
        wd.stop = True
    return rc, open(log_path, errors="replace").read(), result_dir, wd.killed


def playback(ws, unit, fq_harness, check_ids, timeout_s, log_dir):
    """Re-run one failing harness with --concrete-playback=print, then execute the
    generated unit test natively (cargo kani playback) against the real code.

    Returns dict(reproduced: bool|None, test_src, native_output, inputs).
    """
    log1 = os.path.join(log_dir, "playback-gen.log")
    target = os.path.join(TARGET_DIR, os.path.basename(ws.dir))
    cmd = [
        "cargo", "kani", "-p", ws.package,
        "-Z", "stubbing", "-Z", "function-contracts", "-Z", "unstable-options", "-Z", "concrete-playback",
        "--target-dir", target, "--exact", "--harness", fq_harness,
        "--concrete-playback=print", "--harness-timeout", "%ds" % timeout_s,
    ]
    if check_ids:
        # restrict CBMC to the refuted obligations (one SAT call with a trace instead of
        # one per property of the harness); must be the last flag
        # no --slice-formula here: the slicer drops nondeterministic inputs the refuted assertion
        # does not depend on, and the generated test then lacks values for them
        cmd += ["--cbmc-args"]
        for cid in check_ids:
            cmd += ["--property", cid]
    env = dict(os.environ)
    env["CARGO_NET_OFFLINE"] = "true"
    r = subprocess.run(cmd, cwd=ws.dir, capture_output=True, text=True, env=env, timeout=timeout_s + 900)
    out = r.stdout + r.stderr
    open(log1, "w").write(out)
    tests = re.findall(r"```\n?(/// Test generated for harness.*?)```", out, re.S)
    if not tests:
        tests = re.findall(r"(#\[test\]\s*fn kani_concrete_playback_\w+\(\)\s*\{.*?\n\})", out, re.S)
    if not tests:
        return {"reproduced": None, "why": "no concrete playback test was generated", "gen_log": out[-4000:]}
    return _run_native_tests(ws, unit, tests, log_dir, env, target)


def native_batch(ws, items, log_dir):
    """`tier=native` harnesses: literal instances (no symbolic value drawn) of functions CBMC
    does not finish, executed natively against the real code -- a BOUNDED stand-in, never
    counted as proved. One `cargo kani playback` run for all of them.

    items: [(unit, harness_name)]. Returns {harness_name: {"status": "ok"|"failed"|"unusable"|"no-result",
    "tags_hit": [...], "output": str}}."""
    env = dict(os.environ)
    env["CARGO_NET_OFFLINE"] = "true"
    env.pop("RUSTUP_TOOLCHAIN", None)
    env["RUSTFLAGS"] = "--cap-lints=warn"
    target = os.path.join(TARGET_DIR, os.path.basename(ws.dir))
    env["CARGO_TARGET_DIR"] = PLAYBACK_TARGET
    os.makedirs(log_dir, exist_ok=True)
    by_unit = {}
    for u, h in items:
        by_unit.setdefault(u.name, (u, []))[1].append(h)
    restore = []
    try:
        for uname, (u, hs) in by_unit.items():
            unit_copy = os.path.join(ws.dir, "verif_native_%s.rs" % uname)
            shutil.copy(u.path, unit_copy)
            with open(unit_copy, "a") as f:
                for h in hs:
                    f.write("\n#[test]\nfn kani_concrete_playback_%s_native0() {\n"
                            "    let concrete_vals: Vec<Vec<u8>> = vec![];\n"
                            "    kani::concrete_playback_run(concrete_vals, %s);\n}\n" % (h, h))
            src = os.path.join(ws.dir, u.attach)
            s = open(src).read()
            restore.append((src, s))
            s2 = re.sub(r'#\[path = "[^"]*"\]\n(pub(?:\(crate\))? mod verif_%s;)' % re.escape(uname),
                        lambda m: '#[path = "%s"]\n%s' % (unit_copy, m.group(1)), s)
            open(src, "w").write(s2)
        cmd = ["cargo", "kani", "playback", "-p", ws.package, "-Z", "concrete-playback", "--", "_native0", "--test-threads", "4"]
        try:
            r = subprocess.run(cmd, cwd=ws.dir, capture_output=True, text=True, env=env, timeout=3600)
            nat = r.stdout + r.stderr
        except subprocess.TimeoutExpired:
            nat = "native run timed out"
    finally:
        for src, s in restore:
            open(src, "w").write(s)
    open(os.path.join(log_dir, "native-batch.log"), "w").write(nat)
    out = {}
    for u, h in items:
        tname = "kani_concrete_playback_%s_native0" % h
        m = re.search(r"^test \S*%s \.\.\. (\w+)" % re.escape(tname), nat, re.M)
        block = ""
        mb = re.search(r"^---- \S*%s stdout ----\n(.*?)(?=^---- |^failures:)" % re.escape(tname), nat, re.M | re.S)
        if mb:
            block = mb.group(1)
        if not m:
            out[h] = {"status": "no-result", "tags_hit": [], "output": nat[-1500:]}
        elif m.group(1) == "ok":
            out[h] = {"status": "ok", "tags_hit": [], "output": ""}
        elif "Not enough det vals" in block or re.search(r"panicked at [^\n]*concrete_playback\.rs", block):
            out[h] = {"status": "unusable", "tags_hit": [], "output": block[:1500]}
        else:
            out[h] = {"status": "failed", "tags_hit": re.findall(r"\[(C\d+/[A-Za-z0-9_.-]+)\]", block), "output": block[:2500]}
    return out


def native_concrete(ws, unit, fq_harness, log_dir):
    """A harness CBMC did not finish, executed natively as the test it is when it draws no
    symbolic value (empty value stream; `#[kani::stub]`s are not applied natively, the real
    functions run). A harness that does draw one makes the playback library panic ("Not enough
    det vals"): then this says nothing (`replay_unusable`)."""
    short = fq_harness.split("::")[-1]
    test_src = ("/// the harness `%s` run natively with an empty stream of symbolic values\n"
                "#[test]\nfn kani_concrete_playback_%s_native0() {\n"
                "    let concrete_vals: Vec<Vec<u8>> = vec![];\n"
                "    kani::concrete_playback_run(concrete_vals, %s);\n}\n" % (fq_harness, short, short))
    env = dict(os.environ)
    env["CARGO_NET_OFFLINE"] = "true"
    env.pop("RUSTUP_TOOLCHAIN", None)
    target = os.path.join(TARGET_DIR, os.path.basename(ws.dir))
    os.makedirs(log_dir, exist_ok=True)
    return _run_native_tests(ws, unit, [test_src], log_dir, env, target)


def _run_native_tests(ws, unit, tests, log_dir, env, target):
    # one test per failing check; try each until one reproduces
    results = []
    for i, test_src in enumerate(tests):
        m = re.search(r"fn (kani_concrete_playback_\w+)", test_src)
        tname = m.group(1)
        unit_copy = os.path.join(ws.dir, "verif_playback_%s_%d.rs" % (unit.name, i))
        shutil.copy(unit.path, unit_copy)
        with open(unit_copy, "a") as f:
            f.write("\n" + test_src + "\n")
        # re-point the attached module at the copy that carries the test
        src = os.path.join(ws.dir, unit.attach)
        s = open(src).read()
        s2 = re.sub(
            r'#\[path = "[^"]*"\]\npub\(crate\) mod verif_%s;' % re.escape(unit.name),
            '#[path = "%s"]\npub(crate) mod verif_%s;' % (unit_copy, unit.name),
            s,
        )
        open(src, "w").write(s2)
        env2 = dict(env)
        env2["RUSTFLAGS"] = "--cap-lints=warn"
        env2["CARGO_TARGET_DIR"] = PLAYBACK_TARGET
        cmd2 = [
            "cargo", "kani", "playback", "-p", ws.package, "-Z", "concrete-playback",
            "--", tname,
        ]
        try:
            r2 = subprocess.run(cmd2, cwd=ws.dir, capture_output=True, text=True, env=env2, timeout=1800)
            nat = r2.stdout + r2.stderr
        except subprocess.TimeoutExpired:
            nat = "native playback timed out"
        open(src, "w").write(s)
        open(os.path.join(log_dir, "playback-native-%d.log" % i), "w").write(nat)
        panicked = re.search(r"panicked at .*?\n(.*)", nat)
        tagged = re.findall(r"\[(C\d+/[A-Za-z0-9_.-]+)\][^\n]*", nat)
        # the playback library itself panics when the recorded byte stream does not fit the
        # harness's any() calls (values sliced away, nondeterministic stubs): such a replay says
        # nothing about the code
        unusable = "kani/src/concrete_playback.rs" in nat or "could not compile" in nat or "Not enough det vals" in nat
        results.append({"test": tname, "test_src": test_src, "native_tail": nat[-3000:], "tags_hit": tagged,
                        "failed_natively": "test result: FAILED" in nat or bool(panicked), "replay_unusable": unusable})
    if any(r["failed_natively"] and r["tags_hit"] for r in results):
        return {"reproduced": True, "runs": results}
    if results and all(r["replay_unusable"] for r in results):
        return {"reproduced": None, "why": "the recorded byte stream does not replay (playback library mismatch)", "runs": results}
    return {"reproduced": False, "runs": results}
