#!/usr/bin/env python3
"""Engine V: Verus on function text extracted mechanically from /repo on every run."""
import hashlib
import json
import os
import re
import shutil
import subprocess
import sys

import vcommon as C

VERIF = C.VERIF
REPO = C.REPO
SCRATCH_ROOT = os.environ.get("VERIF_SCRATCH", "/var/tmp/typify-verif")


def clause_map(gen_path):
    """Map line numbers of the generated file to named obligations.

    returns list of (line_no, fn_name, kind, clause_index, clause_text) for every line that
    belongs to a spliced requires/ensures clause, and fn body ranges."""
    lines = open(gen_path).read().split("\n")
    # only the spliced contracts of the extracted /repo functions are obligations; the ensures
    # of the ASSUMED stand-ins in specs.rs (before the marker) are not
    start_at = 0
    for n_, l_ in enumerate(lines):
        if l_.startswith("// ======== /repo text (functions)"):
            start_at = n_
            break
    out = {}
    fn = None
    kind = None
    idx = {"requires": 0, "ensures": 0}
    fn_ranges = []
    depth_fn_start = None
    cur_clause_lines = []
    pending_label = None
    cur_label = None
    i = start_at
    fn_re = re.compile(r"^\s*(?:pub\s+)?(?:proof\s+)?fn\s+(\w+)")
    while i < len(lines):
        l = lines[i]
        m = fn_re.match(l)
        if m:
            fn = m.group(1)
            kind = None
            idx = {"requires": 0, "ensures": 0}
            depth_fn_start = i + 1
        st = l.strip()
        ml = re.match(r"// @(\w+)", st)
        if fn and kind and ml:
            pending_label = ml.group(1)
        if fn and st in ("requires", "ensures"):
            kind = st
        elif fn and kind and st and not st.startswith("//") and not st.startswith("{"):
            if st.startswith("&&") or (cur_clause_lines and not lines[cur_clause_lines[-1] - 1].rstrip().endswith(",")):
                pass  # continuation of the previous clause
            else:
                idx[kind] += 1
                cur_clause_lines = []
                cur_label = pending_label
                pending_label = None
            cur_clause_lines.append(i + 1)
            out[i + 1] = (fn, kind, ("@" + cur_label) if cur_label else ("#%d" % idx[kind]), st)
        if fn and st.startswith("{") and kind:
            kind = None
            cur_clause_lines = []
        i += 1
    return out


def parse_errors(stderr, cmap, gen_lines):
    """Split Verus' rustc-style diagnostics into named failed obligations."""
    blocks = re.split(r"\n(?=error(?:\[E\d+\])?: )", "\n" + stderr)
    fails, other = [], []
    fn_of_line = {}
    cur = None
    for n, l in enumerate(gen_lines, 1):
        m = re.match(r"^\s*(?:pub\s+)?(?:proof\s+)?fn\s+(\w+)", l)
        if m:
            cur = m.group(1)
        fn_of_line[n] = cur
    for b in blocks:
        b = b.strip("\n")
        if not b.startswith("error"):
            continue
        head = b.split("\n", 1)[0]
        msg = re.sub(r"^error(\[E\d+\])?: ", "", head)
        if msg.startswith("aborting due to"):
            continue
        m = re.search(r"--> [^:\n]+:(\d+):(\d+)", b)
        primary = int(m.group(1)) if m else None
        labelled = [int(x) for x in re.findall(r"^\s*(\d+)\s*\|", b, re.M)]
        names = []
        for ln in [primary] + labelled:
            if ln in cmap:
                f, kind, k, text = cmap[ln]
                names.append("%s.%s%s" % (f, kind, k))
        fn = fn_of_line.get(primary)
        # a failed callee precondition / overflow is reported at the body line
        if re.search(r"postcondition not satisfied|precondition not satisfied|invariant not satisfied|assertion failed"
                     r"|arithmetic underflow/overflow|possible division by zero|decreases not satisfied", msg):
            if not any(n_.startswith((fn or "?") + ".ensures") for n_ in names) and "postcondition" not in msg:
                names.append("%s.body:%s" % (fn, re.sub(r"\W+", "-", msg)[:40]))
            fails.append({"fn": fn, "message": msg, "obligations": sorted(set(names)) or ["%s.unknown" % fn],
                          "line": primary, "text": b[:1500]})
        else:
            other.append({"message": msg, "line": primary, "text": b[:1500]})
    return fails, other


def native_fallback(pid, seed, log_dir, reason):
    """The changed code left the Verus subset (lost anchor / unsupported construct): no
    obligation can be generated, so nothing is decided deductively. A failing history found by
    the bounded native search against the REAL code is still a real violation and is reported
    as one (with its input); finding none leaves the run undecided."""
    import native_search
    found = native_search.search(pid, [], seed, log_dir)
    if not found.get("found"):
        return None
    key = hashlib.sha256(found["failing_input"].encode()).hexdigest()[:10]
    rpath = os.path.join(VERIF, "replay", "%s-native-%s.json" % (pid, key))
    os.makedirs(os.path.dirname(rpath), exist_ok=True)
    m = re.search(r'violated="([^"]*)"', found["failing_input"])
    tag = "native-history:" + re.sub(r"[^A-Za-z0-9_]+", "_", (m.group(1) if m else "postcondition"))[:60]
    json.dump({
        "property": pid, "engine": "native search (bounded; the deductive check could not be generated)",
        "why_no_obligation": reason[:600],
        "failed_obligations": [tag],
        "native_search": found,
        "how_to_replay": "bin/check --replay %s" % os.path.relpath(rpath, VERIF),
    }, open(rpath, "w"), indent=1)
    return ("native", [{"tag": tag}], rpath, "")


def run_verus_property(pid, cfg, tier, seed, clock):
    vcfg = cfg["verus"]
    violations, known, undecided = [], [], []
    work = os.path.join(SCRATCH_ROOT, pid + "-verus")
    shutil.rmtree(work, ignore_errors=True)
    os.makedirs(work, exist_ok=True)
    log_dir = os.path.join(VERIF, "work", "logs", pid)
    os.makedirs(log_dir, exist_ok=True)
    gen = os.path.join(work, "gen.rs")
    cov = {}
    try:
        r = subprocess.run([sys.executable, os.path.join(VERIF, "verus", vcfg["extractor"]), REPO, gen,
                            "--report", os.path.join(work, "report.json")], capture_output=True, text=True)
        print(r.stdout.strip(), flush=True)
        if r.returncode != 0:
            undecided.append("extraction failed (lost anchor or construct outside the subset): " + (r.stderr.strip() or r.stdout.strip())[-400:])
            v = native_fallback(pid, seed, log_dir, undecided[-1])
            if v:
                violations.append(v)
            return violations, known, undecided, {"obligations": 0, "discharged": 0}, []
        report = json.load(open(os.path.join(work, "report.json")))
        rlimit = vcfg.get("rlimit_thorough", 30) if tier == "thorough" else vcfg.get("rlimit_quick", 10)
        cmd = ["verus", gen, "--output-json", "--time", "--rlimit", str(rlimit), "--multiple-errors", "50"]
        if tier == "thorough":
            cmd += ["--num-threads", "8"]
        env = dict(os.environ)
        p = subprocess.run(cmd, capture_output=True, text=True, cwd=work, env=env, timeout=3600)
        open(os.path.join(log_dir, "verus.stdout.json"), "w").write(p.stdout)
        open(os.path.join(log_dir, "verus.stderr.txt"), "w").write(p.stderr)
        shutil.copy(gen, os.path.join(log_dir, "gen.rs"))
        try:
            j = json.loads(p.stdout)
        except Exception:
            undecided.append("verus produced no JSON (crash?): " + p.stderr[-600:])
            return violations, known, undecided, {"obligations": 0, "discharged": 0}, []
        gen_lines = open(gen).read().split("\n")
        cmap = clause_map(gen)
        fails, other = parse_errors(p.stderr, cmap, gen_lines)
        vr = j.get("verification-results", {})
        if other or vr.get("encountered-vir-error"):
            for o in other:
                undecided.append("verus rejected the extracted text (not a proof failure): %s (gen.rs:%s)" % (o["message"], o["line"]))
            v = native_fallback(pid, seed, log_dir, "; ".join(undecided[-3:]))
            if v:
                violations.append(v)
        breakdown = []
        for mt in j.get("times-ms", {}).get("smt", {}).get("smt-run-module-times", []):
            breakdown += mt.get("function-breakdown", [])
        fn_status = {b["function"].split("::")[-1]: b for b in breakdown}
        # rlimit exhaustion is a tool limit
        if re.search(r"Resource limit \(rlimit\) exceeded|rlimit exceeded", p.stderr):
            undecided.append("verus: resource limit exceeded")

        # ---- obligations: every ensures clause of every function under contract + its body safety
        contract_fns = vcfg["functions"]
        obligations = []
        for ln, (f, kind, k, text) in sorted(cmap.items()):
            if kind == "ensures" and f in contract_fns:
                name = "%s.ensures%s" % (f, k)
                if name not in [o["name"] for o in obligations]:
                    obligations.append({"name": name, "text": text})
        for f in contract_fns:
            obligations.append({"name": "%s.body" % f, "text": "callee preconditions, arithmetic overflow, totality of the body"})
        only = vcfg.get("only")
        if only:
            # this property owns only some obligations of the shared Verus unit
            obligations = [o for o in obligations if o["name"] in only]
        failed_names = set()
        canary_failed = False
        for f_ in fails:
            if (f_["fn"] or "").startswith("canary_"):
                canary_failed = True
                continue
            for o in f_["obligations"]:
                if o.split(".")[1].startswith("body"):
                    failed_names.add("%s.body" % f_["fn"])
                else:
                    failed_names.add(o)
            if f_["fn"] not in contract_fns and not only:
                undecided.append("verus: failure outside the functions under contract: %s in %s" % (f_["message"], f_["fn"]))
        if only:
            failed_names = set(n for n in failed_names if n in only)
        if not canary_failed:
            undecided.append("verus: the vacuity canary verified (contradictory preconditions or no obligations generated)")
        n_verified = vr.get("verified", 0)
        if n_verified == 0:
            undecided.append("verus: zero functions verified (vacuity guard)")

        baseline_path = os.path.join(VERIF, "verus", vcfg["baseline"])
        baseline = set(json.load(open(baseline_path))["obligations"]) if os.path.exists(baseline_path) else None
        names = [o["name"] for o in obligations]
        if os.environ.get("VERIF_WRITE_BASELINE") == "1":
            json.dump({"obligations": [n for n in names if n not in failed_names]}, open(baseline_path, "w"), indent=1)
            baseline = set(n for n in names if n not in failed_names)
        if baseline is None:
            undecided.append("no baseline_obligations file")
            baseline = set()
        if only:
            baseline = baseline & set(only)
        missing = baseline - set(names)
        for m_ in sorted(missing):
            undecided.append("baseline obligation %s no longer generated (contract file or extraction changed)" % m_)

        findings, _ = C.load_known_findings()
        findings = [f for f in findings if f.get("property") == pid]
        new_fail = []
        for n in sorted(failed_names):
            kf = [f for f in findings if f.get("obligation") == n]
            if kf:
                # a recorded genuine defect: reported on every run, never an alarm
                known.append((n, "verus", kf[0]["text"]))
                continue
            if n not in baseline:
                undecided.append("obligation %s is not discharged and is not in the baseline (never proved) -- undecided" % n)
                continue
            new_fail.append(n)
        if new_fail:
            # Verus gives no model: search natively for a failing input against the real code
            import native_search
            found = native_search.search(pid, new_fail, seed, log_dir)
            key = hashlib.sha256(json.dumps(new_fail).encode()).hexdigest()[:10]
            rpath = os.path.join(VERIF, "replay", "%s-verus-%s.json" % (pid, key))
            os.makedirs(os.path.dirname(rpath), exist_ok=True)
            json.dump({
                "property": pid, "engine": "verus", "failed_obligations": new_fail,
                "verifier_output": [f_ for f_ in fails if not (f_["fn"] or "").startswith("canary_")],
                "native_search": found,
                "extracted_text": os.path.join(log_dir, "gen.rs"),
                "how_to_replay": "bin/check --replay %s" % os.path.relpath(rpath, VERIF),
            }, open(rpath, "w"), indent=1)
            suffix = "" if found.get("found") else " no-failing-input-found"
            violations.append(("verus", [{"tag": n} for n in new_fail], rpath, suffix))

        native_cross = None
        if tier == "thorough" and not only and not new_fail:
            # bounded cross-check (NOT proof): executable forms of the proved postconditions and of
            # the ASSUMED callee contracts on random short histories against the real code
            import native_search
            # the thorough tier explores more histories (5000 API-level runs instead of 400)
            os.environ.setdefault("VERIF_NATIVE_API_RUNS", "5000")
            native_cross = native_search.search(pid, [], seed, log_dir)
            if native_cross.get("found"):
                undecided.append("native cross-check contradicts a contract that Verus accepts (an ASSUMED contract is wrong, "
                                 "or the extracted text is not what runs): " + native_cross["failing_input"][:300])
        discharged = [n for n in names if n not in failed_names]
        known_names = set(k[0] for k in known)
        cov = {
            # obligations refuted by a recorded known finding are reported separately, not counted
            "obligations": len([n for n in names if n not in known_names]),
            "refuted_known_findings": sorted(known_names),
            "discharged": len(discharged),
            "verus_functions_verified": n_verified,
            "verus_function_breakdown": [{"function": b["function"], "rlimit": b.get("rlimit"), "ms": b.get("time"), "success": b.get("success")} for b in breakdown],
            "solver_seconds_total": round(j.get("times-ms", {}).get("smt", {}).get("total", 0) / 1000.0, 3),
            "back_end": "Verus %s / Z3" % j.get("verus", {}).get("version", "?"),
            "extraction": {k: report[k] for k in ("extracted_lines", "deleted_lines", "pub_crate_widened", "bodies_rewritten", "ghost_hint_lines_inserted")},
            "extracted_items": report["items"],
            "obligation_names": names,
            "samples": [{"obligation": o["name"], "clause": o["text"]} for o in obligations[:8]],
            "canary": "failed as required" if canary_failed else "NOT refuted",
            "native_cross_check_bounded": native_cross,
        }
    finally:
        shutil.rmtree(work, ignore_errors=True)
    scan = C.scan_assumptions([os.path.join(VERIF, "verus", "prelude.rs"), os.path.join(VERIF, "verus", "specs.rs")]
                              + [os.path.join(VERIF, "verus", "contracts", f) for f in sorted(os.listdir(os.path.join(VERIF, "verus", "contracts")))])
    return violations, known, undecided, cov, scan
