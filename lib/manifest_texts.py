BASELINE_OFF = "cd /repo && cargo nextest run --workspace --no-fail-fast --tool-config-file pb:/w/lib/nextest.toml --profile pb --test-threads 8 --offline || cargo test --workspace --no-fail-fast --offline"

TOKEN = "the property is about the denotation of the emitted token stream (what rustc accepts / what serde's derive and the compiled impls do); no contract over typify's own functions expresses it and proc_macro2/quote/syn are outside both verifiers"
PENDING = "check not built yet in this session (planned as partial claim, DESIGN.md §4)"

NOT_APPLICABLE = {
    "C01": "oracle is rustc type-checking of generated code: " + TOKEN,
    "C02": "oracle is serde's behaviour on the generated type vs a draft-07 validator: " + TOKEN + "; generation-time fragments are carried under C05/C10",
    "C03": "round trip through compiled generated Serialize/Deserialize: " + TOKEN,
    "C04": "two compiled crates exchanging JSON: " + TOKEN,
    "C05": PENDING, "C06": PENDING, "C07": PENDING, "C08": PENDING, "C09": PENDING,
    "C11": "behaviour of emitted FromStr/Display/TryFrom templates: " + TOKEN,
    "C12": "absence of hash-order/address/environment flow into the output is an information-flow property of the whole crate; as a contract it would be out == spec_render(settings, schema), i.e. verification of the entire generator",
    "C13": "the policy decision table is fused with serde_json::from_value, VersionReq::parse, str::find, slicing and format!: Kani gave no result in 25 min with every string concrete, Verus rejects the string operations; lifting the table out by hand would be a model, not the code",
    "C14": "replacement lookup goes through sanitize (syn::parse_str crashes the Kani compiler), patches/derives/map type act on token templates; the separable unit (SchemaCache::lookup) did not verify within budget",
    "C15": PENDING, "C16": PENDING, "C17": PENDING,
    "C18": "behaviour of the emitted builder template: " + TOKEN,
    "C19": "trait bounds of emitted items are decided by rustc: " + TOKEN,
}

LEVEL_TEXT = {
    "C10": "Proof over the full input domain of the selection function: for each of the format classes the numeric keywords, the default and the probe integer are symbolic over all finite f64, every loop is bounded by a constant of the code with unwinding assertions on, and the postconditions are the property's own wording (admitted integer fits, NonZero only if zero excluded, out-of-range default rejected). No sampling, no input bound.",
}
LEVEL_NOTE = {
    "C10": "Trusted: Kani/CBMC float and memcmp models (every refutation is replayed natively before it is reported), harness support kani/common.rs, the literal range tables of the harness; the routing of integer schemas to convert_integer by the unverified driver. Quick tier proves the inclusive-bound, exclusive-bound and default sub-domains for three format classes; thorough proves all six keywords for all 13 format classes.",
}
TECHNIQUE = {
    "C10": "Kani/CBMC deductive check of postconditions on the real convert_integer/convert_number/convert_string over symbolic f64 inputs",
}
