BASELINE_OFF = "cd /repo && cargo nextest run --workspace --no-fail-fast --tool-config-file pb:/w/lib/nextest.toml --profile pb --test-threads 8 --offline || cargo test --workspace --no-fail-fast --offline"

TOKEN = "the property is about the denotation of the emitted token stream (what rustc accepts / what serde's derive and the compiled impls do); no contract over typify's own functions expresses it and proc_macro2/quote/syn are outside both verifiers"
PENDING = "check not built yet in this session (planned as partial claim, DESIGN.md §4)"

NOT_APPLICABLE = {
    "C01": "oracle is rustc type-checking of generated code: " + TOKEN,
    "C02": "oracle is serde's behaviour on the generated type vs a draft-07 validator: " + TOKEN + "; generation-time fragments are carried under C05/C10",
    "C03": "round trip through compiled generated Serialize/Deserialize: " + TOKEN,
    "C04": "two compiled crates exchanging JSON: " + TOKEN,
    "C11": "behaviour of emitted FromStr/Display/TryFrom templates: " + TOKEN,
    "C12": "absence of hash-order/address/environment flow into the output is an information-flow property of the whole crate; as a contract it would be out == spec_render(settings, schema), i.e. verification of the entire generator",
    "C13": "the policy decision table is fused with serde_json::from_value, VersionReq::parse, str::find, slicing and format!: Kani gave no result in 25 min with every string concrete, Verus rejects the string operations; lifting the table out by hand would be a model, not the code",
    "C14": "replacement lookup goes through sanitize (syn::parse_str crashes the Kani compiler), patches/derives/map type act on token templates; the separable unit (SchemaCache::lookup) did not verify within budget",
    "C18": "behaviour of the emitted builder template: " + TOKEN,
    "C19": "trait bounds of emitted items are decided by rustc: " + TOKEN,
}

PARTIAL = " Partial claim: only the clauses named in the evidence file (coverage.clauses_decided) are decided; coverage.clauses_not_decided lists the rest of the property, which this family of technique cannot reach."

LEVEL_TEXT = {
    "C13": "Deductive check (Kani/CBMC) on a statement slice extracted mechanically from convert_rust_extension: for a crate that is NOT configured the type is substituted exactly when the unknown-crate policy (symbolic) is Allow, with the path unchanged; hyphenated crate names are matched against the path's first segment; a path without `::` is never substituted. The configured-crate cells do not terminate and are not decided. Plus a routing obligation on convert_schema_object: the extension is consulted before any structural conversion and its answer replaces the schema's own structure; and TypeEntryNative::name_match on enumerated names." + PARTIAL,
    "C05": "Deductive check (Kani/CBMC) of the generation-time string-length filter against the property's wording (lengths in Unicode scalar values) for every Option<u32> bound pair and every string of at most 2 scalar values (all code points, all UTF-8 widths); bounded in the number of characters, so level `other`, not proof." + PARTIAL,
    "C06": "Deductive check of leaf default validation (type soundness, intrinsic-default and generic-function classification), of enum-default membership and of the property-default classification table over symbolic JSON payloads (all u64 / i64 / finite f64), one harness per type kind; the numeric range clause is C10/P3. Kinds and container shapes are enumerated, so level `other`." + PARTIAL,
    "C07": "Deductive check that the edge relation used by cycle breaking (get_child_ids) is exactly by-value containment and that its slots alias the entry, one harness per kind with symbolic identifiers; vectors of at most 2 children, enum arm not decided (CBMC does not terminate on it). The traversal itself is not verified." + PARTIAL,
    "C08": "Deductive check that recase emits a rename exactly when the identifier differs from the JSON name and that the rename is the JSON name, for every sanitiser (sanitize replaced by an arbitrary string) and every name of at most 2 Unicode scalar values." + PARTIAL,
    "C09": "Deductive check that the leaf merges of allOf (instance types on a seven-class abstraction of JSON values, formats on enumerated literal pairs, choose_value) are intersections, commutative, and unsatisfiable only when really so." + PARTIAL,
    "C10": "Proof over the full input domain of the selection functions: for each of the format classes the numeric keywords, the default and the probe integer are symbolic over all finite f64, every loop is bounded by a constant of the code with unwinding assertions on, and the postconditions are the property's own wording (admitted integer fits, NonZero only if zero excluded, out-of-range default rejected); the string- and float-format tables are proved for every format string of at most 10 / 7 bytes. No sampling, no input bound on the numeric domain.",
    "C15": "Deductive check of the CLI argument layer on text extracted mechanically from cargo-typify/src/lib.rs on every run (clap attributes dropped): crate-specifier grammar over symbolic crate-name characters, version meaning, output-path rule, builder flag; CrateVers::parse on the real crate." + PARTIAL,
    "C16": "Proof (Verus) of function contracts on the identifier allocator, on function text extracted byte-identically from /repo on every run: representation invariant, monotone identifiers, stability of every identifier handed out earlier, no index entry re-pointed, exact effect of by-name and structural reuse, and the invariant that no two entries carry one name -- for all inputs and all map contents, callers checked against callee contracts." + PARTIAL,
    "C17": "Deductive check of has_impl against a literal table of std trait facts for the built-in kinds (symbolic trait, kinds enumerated), native types against their registered impls, structs against their default; uses_uuid / uses_chrono set whenever the string-format path chooses such a type (every format string of at most 10 bytes)." + PARTIAL,
}
LEVEL_NOTE = {
    "C13": "Trusted: lib/c13_prepare.py's wrapper around the extracted statements, semver's matches. Not decided: parsing of the extension, the path/crate mismatch message path, type parameters, the newtype wrapper, exhaustive operator coverage.",
    "C05": "Trusted: Kani/CBMC models (refutations are replayed natively), kani/common.rs. Not decided: everything C05 says about emitted impls (token templates), patterns, allow/deny lists, deny_unknown_fields, required.",
    "C06": "Trusted: Kani/CBMC models, serde_json Value/Number constructors, harness support. Not decided: nested defaults, rendering (value.rs), emitted Default impls, native kinds.",
    "C07": "Trusted: Kani/CBMC models, kani/te_support.rs constructors. NOT verified: break_cycles (the traversal), the Enum arm of get_child_ids; a change there is not detected.",
    "C08": "Trusted: stub_sanitize (arbitrary string) in place of sanitize, which Kani cannot compile (syn::parse_str). A refutation cannot be replayed natively (the stub consumes nondeterministic values) and is reported with no-failing-input-found. Not decided: identifier validity and distinctness.",
    "C09": "Trusted: the seven-class abstraction of JSON values; format strings are enumerated literals. Known finding: distinct integer formats merge to `never` (the code's TODO). Not decided: merge_schema, objects, arrays' item schemas, anyOf/oneOf/not distribution.",
    "C10": "Trusted: Kani/CBMC float and memcmp models (every refutation is replayed natively before it is reported), harness support kani/common.rs, the literal range tables of the harness; the routing of integer schemas to convert_integer by the unverified driver. Quick tier proves the inclusive-bound, exclusive-bound, four-bound and default sub-domains for the format classes none/uint8/int64/uint64; thorough proves all six keywords for all 13 format classes. Known finding: a default of exactly 2^63 (int64) / 2^64 (uint64) is accepted (f64 table).",
    "C15": "Trusted: lib/c15_prepare.py's drop list (clap attributes removed; clap is assumed to hand --crate values to CrateSpec::from_str), semver. Not decided: token-for-token equality of the three front ends, the macro, convert()'s option mapping, I/O in main.rs.",
    "C16": "Trusted: vstd's BTreeMap / String / Into specifications, two assumed Clone specifications, keys_lawful() (Ord of the key types is lawful -- for TypeEntryDetails only on unnamed kinds, and wf proves only those become keys), verus/prelude.rs, the extractor's drop list D1-D9. Known finding: convert_ref_type re-points the by-name index (duplicate definitions). NOT under contract: add_ref_types_impl's loops, id_for_schema, break_cycles, finalize.",
    "C17": "Trusted: the literal table of std trait facts in the harness. Not decided: every clause relating the API to emitted items (fields, variants, builder, emitted impls of named types), the remaining uses_* sites.",
}
TECHNIQUE = {
    "C13": "Kani/CBMC postcondition checks on a mechanically extracted statement slice of convert_rust_extension (policy table, symbolic unknown-crate policy)",
    "C05": "Kani/CBMC function-level postcondition check of StringValidator::{is_valid,new} on the real crate, symbolic chars and bounds",
    "C06": "Kani/CBMC postcondition checks of validate_value / validate_default_for_external_enum / has_default on the real crate, symbolic JSON payloads",
    "C07": "Kani/CBMC postcondition + frame check of get_child_ids per entry kind on the real crate",
    "C08": "Kani/CBMC postcondition check of recase with sanitize abstracted by a nondeterministic stub",
    "C09": "Kani/CBMC postcondition checks of merge_so_instance_type / merge_so_format / choose_value against an abstract admits() specification",
    "C10": "Kani/CBMC deductive check of postconditions on the real convert_integer / convert_number / convert_string over symbolic f64 inputs and symbolic format strings",
    "C15": "Kani/CBMC postcondition checks on mechanically extracted CLI argument code (CrateSpec::from_str, CliArgs) and on CrateVers::parse",
    "C16": "Verus function contracts (requires/ensures, representation invariant, frame) on mechanically extracted allocator functions; native search for counterexamples",
    "C17": "Kani/CBMC postcondition checks of TypeEntry::has_impl against a table of std facts, and of the uses_* flags on convert_string",
}
