#!/usr/bin/env python3
"""check <Cxx> [--tier quick|thorough]        decide one property on /repo's working tree
   check --replay <file>                      re-run a recorded counterexample natively

exit 0  every obligation of the claimed clauses discharged (known findings printed)
exit 1  `VIOLATION property=<id> replay=<path>` printed for a violation not listed in known_findings.txt
exit 2  UNDECIDED: tool limit, timeout, lost anchor, vacuity guard -- never a VIOLATION line
"""
import argparse
import hashlib
import json
import os
import re
import shutil
import sys
import traceback

sys.path.insert(0, os.path.dirname(os.path.abspath(__file__)))
import kani_engine as K
import vcommon as C
from props import PROPS

VERIF = C.VERIF


def log(*a):
    print(*a, flush=True)


def select_harnesses(units, tier):
    sel = []
    for u in units:
        for h in u.harnesses:
            t = h.get("tier", "quick")
            if tier == "thorough":
                if t in ("thorough", "both", "quick"):
                    if t == "quick" and h.get("subsumed"):
                        continue
                    sel.append((u, h))
            else:
                if t in ("quick", "both"):
                    sel.append((u, h))
    return sel


def run_kani_property(pid, cfg, tier, seed, clock):
    """Run every Kani group of the property and merge the results."""
    groups = cfg["kani"] if isinstance(cfg["kani"], list) else [cfg["kani"]]
    V, Kn, U, scan = [], [], [], []
    per, cov = [], None
    for gi, g in enumerate(groups):
        v, k, u, c, s = run_kani_group(pid, g, tier, seed, clock, gi)
        V += v
        Kn += k
        U += u
        scan += s
        if cov is None:
            cov = c
        else:
            for key in ("obligations", "discharged", "tagged_obligations", "tagged_discharged", "bounded_obligations", "bounded_discharged"):
                cov[key] += c[key]
            cov["solver_seconds_total"] = round(cov["solver_seconds_total"] + c["solver_seconds_total"], 1)
            for key in ("harnesses_unbounded_discharged", "harnesses_bounded_discharged", "per_harness"):
                cov[key] += c[key]
            cov["samples"] = (cov["samples"] + c["samples"])[:8]
    return V, Kn, U, cov, scan


def run_kani_group(pid, kcfg, tier, seed, clock, gi=0):
    """Returns (violations, known, undecided, coverage_dict, assumptions)."""
    kcfg = dict(kcfg)
    if os.environ.get("VERIF_UNITS"):  # development aid: run a subset of the units
        kcfg["units"] = os.environ["VERIF_UNITS"].split(",")
    units = K.load_units(["common"] + kcfg["units"]) if kcfg.get("package", "typify-impl") == "typify-impl" else K.load_units(kcfg["units"])
    sel = select_harnesses(units, tier)
    if os.environ.get("VERIF_HARNESSES"):  # development aid
        want = os.environ["VERIF_HARNESSES"].split(",")
        sel = [(u, h) for u in units for h in u.harnesses if h["name"] in want]
    canaries = [(u, c) for u in units for c in u.canaries]
    # `tier=native`: literal instances executed natively (bounded stand-in), both tiers
    native_sel = [(u, h) for u in units for h in u.harnesses if h.get("tier") == "native"]
    if os.environ.get("VERIF_HARNESSES"):
        native_sel = [(u, h) for u, h in native_sel if h["name"] in os.environ["VERIF_HARNESSES"].split(",")]
    timeout_s = int(os.environ.get("VERIF_HARNESS_TIMEOUT", kcfg.get("timeout_" + tier, 1200 if tier == "quick" else 3600)))
    jobs = int(os.environ.get("VERIF_JOBS", kcfg.get("jobs", 8)))
    log_dir = os.path.join(VERIF, "work", "logs", os.environ.get("VERIF_TAG", pid))
    if gi == 0:
        shutil.rmtree(log_dir, ignore_errors=True)
    os.makedirs(log_dir, exist_ok=True)

    findings, _fixed = C.load_known_findings()
    findings = [f for f in findings if f.get("property") == pid]

    violations, known, undecided = [], [], []
    per_harness = []
    refuted = []
    timed_out = []
    extra_prepare = None
    if kcfg.get("prepare"):
        import importlib
        mod = importlib.import_module(kcfg["prepare"])
        extra_prepare = mod.prepare

    try:
        with K.Workspace(os.environ.get("VERIF_TAG", pid) + ("" if gi == 0 else "-g%d" % gi), units, package=kcfg.get("package", "typify-impl"), extra_prepare=extra_prepare) as ws:
            fq = [u.fq(h["name"]) for u, h in sel] + [u.fq(c) for u, c in canaries]
            log("[%s] kani: %d harnesses + %d canaries, tier=%s, timeout/harness=%ds, jobs=%d" % (pid, len(sel), len(canaries), tier, timeout_s, jobs))
            if fq:
                rc, out, rdir, killed = K.run_kani(ws, fq, timeout_s, jobs, os.path.join(log_dir, "kani-g%d.log" % gi))
            else:
                # a group of `tier=native` harnesses only (without --harness cargo kani would run every harness)
                rc, out, rdir, killed = 0, "", os.path.join(log_dir, "none"), []
            if re.search(r"^error: could not compile|^error: Failed to ", out, re.M):
                undecided.append("build failed (harness does not compile against the current tree, or compiler crash); see work/logs/%s/" % pid)
            if "internal compiler error" in out or "Kani unexpectedly panicked" in out:
                undecided.append("kani-compiler crashed; see work/logs/%s/" % pid)
            for (pid_k, rss) in killed:
                undecided.append("cbmc pid %d killed by RSS watchdog at %d MB" % (pid_k, rss // 1024))

            for u, h in sel + [(u, {"name": c, "canary": True}) for u, c in canaries]:
                name = h["name"]
                f = os.path.join(rdir, u.fq(name))
                rec = {"harness": name, "unit": u.name, "bounded": h.get("bounded"), "canary": bool(h.get("canary"))}
                per_harness.append(rec)
                if not os.path.exists(f):
                    rec["outcome"] = "no-result"
                    if not undecided or "build failed" not in undecided[0]:
                        undecided.append("%s: no result file (timeout, crash or build failure)" % name)
                    continue
                res = K.parse_result_file(f)
                shutil.copy(f, os.path.join(log_dir, name + ".result"))
                cl = K.classify(res, pid)
                rec.update({
                    "solver_s": res["time"], "verdict": res["verdict"],
                    "checks": cl["n_checks"], "success": cl["n_success"], "unreachable": cl["n_unreachable"],
                    "undetermined": cl["n_undetermined"], "failed": cl["n_failure"],
                    "tagged": [(t["tag"], t["status"]) for t in cl["tagged"]],
                    "must_covers_satisfied": cl["must_cover_ok"],
                    "info_covers": cl["info_cover"],
                })
                if h.get("canary"):
                    if "FAILURE" in cl["canary"]:
                        rec["outcome"] = "canary-refuted-as-required"
                    else:
                        rec["outcome"] = "canary-not-refuted"
                        undecided.append("%s: canary assertion was not refuted (statuses %s) -- the pipeline cannot fail" % (name, cl["canary"]))
                    continue
                if res["verdict"] is None:
                    rec["outcome"] = "timeout-or-crash"
                    undecided.append("%s: no verdict (timeout after %ds or solver crash)" % (name, timeout_s))
                    timed_out.append((u, name))
                    continue
                if not cl["tagged"]:
                    if u.property and u.property != pid and cl["foreign"]:
                        # a harness of a shared unit that carries only the other property's obligations
                        rec["outcome"] = "not-this-property"
                        continue
                    undecided.append("%s: zero tagged obligations (vacuity guard)" % name)
                for d, st in cl["must_cover_bad"]:
                    # a cover can be unsatisfied because a failing assertion cuts the path; only
                    # report vacuity when nothing failed
                    if cl["n_failure"] == 0:
                        undecided.append("%s: cover %r is %s (vacuity guard)" % (name, d, st))
                for t in cl["tool_fail"]:
                    undecided.append("%s: tool-limit check failed: %s @ %s" % (name, t["desc"], t["loc"]))
                cand = [t for t in cl["tagged"] if t["status"] == "FAILURE"]
                for t in cl["tagged"]:
                    if t["status"] == "UNDETERMINED":
                        undecided.append("%s: obligation %s UNDETERMINED" % (name, t["tag"]))
                for t in cl["panic_fail"]:
                    cand.append({"tag": "PANIC", "status": "FAILURE", "desc": t["desc"], "loc": t["loc"], "id": t["id"]})
                if not cand:
                    rec["outcome"] = "discharged" if res["verdict"] == "SUCCESSFUL" else rec.get("outcome", "not-discharged")
                    foreign_fail = [f_ for f_ in cl["foreign"] if f_["status"] == "FAILURE"]
                    if foreign_fail:
                        rec["outcome"] = "discharged" if not cl["tool_fail"] else rec.get("outcome")
                        rec["foreign_failures"] = foreign_fail
                    if res["verdict"] != "SUCCESSFUL" and not cl["tool_fail"] and not cl["must_cover_bad"] and not foreign_fail:
                        undecided.append("%s: verdict %s without a classified failure" % (name, res["verdict"]))
                    continue
                # ---- candidate violation(s) ----
                rec["outcome"] = "refuted"
                unknown = []
                for t in cand:
                    kf = [f_ for f_ in findings if f_.get("harness") == name and f_.get("tag") == t["tag"]]
                    if kf:
                        known.append((name, t["tag"], kf[0]["text"]))
                    else:
                        unknown.append(t)
                if not unknown:
                    rec["outcome"] = "refuted-known-finding"
                    continue
                refuted.append((res["time"] or 0, u, name, unknown, res))

            # ---- tier=native: bounded native execution of literal instances ----
            if native_sel:
                log("[%s] native (bounded): %d literal-instance harnesses executed against the real code" % (pid, len(native_sel)))
                try:
                    ncan = [(u, c) for u in units for c in u.native_canaries if any(u2 is u for u2, _ in native_sel)]
                    nres = K.native_batch(ws, [(u, h["name"]) for u, h in native_sel] + ncan, os.path.join(log_dir, "native"))
                    for u, c in ncan:
                        st = nres.get(c, {}).get("status")
                        per_harness.append({"harness": c, "unit": u.name, "bounded": None, "canary": True, "engine": "native execution (no solver)",
                                            "outcome": "canary-refuted-as-required" if st == "failed" else "canary-not-refuted"})
                        if st != "failed":
                            undecided.append("%s: native canary did not fail (status %s) -- the native pipeline cannot fail" % (c, st))
                except Exception as e:  # noqa
                    nres = {}
                    undecided.append("native batch crashed: %r" % (e,))
                for u, h in native_sel:
                    name = h["name"]
                    r_ = nres.get(name, {"status": "no-result", "tags_hit": [], "output": ""})
                    bound = "native-execution-of-one-literal-instance" + ("," + h["bounded"] if h.get("bounded") else "")
                    rec = {"harness": name, "unit": u.name, "bounded": bound, "canary": False, "engine": "native execution (no solver)",
                           "checks": 1, "success": 1 if r_["status"] == "ok" else 0, "unreachable": 0}
                    per_harness.append(rec)
                    if r_["status"] == "ok":
                        rec["outcome"] = "discharged"
                        continue
                    tags = sorted(set(t for t in r_["tags_hit"] if t.startswith(pid + "/")))
                    if r_["status"] == "failed" and tags:
                        rec["outcome"] = "refuted"
                        unknown = []
                        for t in tags:
                            kf = [f for f in findings if f.get("harness") == name and f.get("tag") == t.split("/", 1)[1]]
                            if kf:
                                known.append((name, t.split("/", 1)[1], kf[0]["text"]))
                            else:
                                unknown.append({"tag": t.split("/", 1)[1]})
                        if not unknown:
                            rec["outcome"] = "refuted-known-finding"
                            continue
                        key = hashlib.sha256((name + "native-tier").encode()).hexdigest()[:10]
                        rpath = os.path.join(VERIF, "replay", "%s-%s-%s.json" % (pid, name, key))
                        os.makedirs(os.path.dirname(rpath), exist_ok=True)
                        json.dump({
                            "property": pid, "engine": "kani", "unit": u.name, "harness": name, "fq_harness": u.fq(name),
                            "failed_obligations": [{"tag": t} for t in tags],
                            "verifier_output_tail": "tier=native: the harness draws no symbolic value; executed natively against the real code:\n" + r_["output"],
                            "playback": {"reproduced": True, "runs": [{"test": "kani_concrete_playback_%s_native0" % name,
                                         "test_src": "#[test]\nfn kani_concrete_playback_%s_native0() {\n    let concrete_vals: Vec<Vec<u8>> = vec![];\n    kani::concrete_playback_run(concrete_vals, %s);\n}\n" % (name, name),
                                         "native_tail": r_["output"], "tags_hit": tags, "failed_natively": True}]},
                            "how_to_replay": "bin/check --replay %s" % os.path.relpath(rpath, VERIF),
                        }, open(rpath, "w"), indent=1)
                        violations.append((name, unknown, rpath, ""))
                    else:
                        rec["outcome"] = "native-" + r_["status"]
                        undecided.append("%s: native execution gave no usable result (%s): %s" % (name, r_["status"], r_["output"][-300:].replace("\n", " | ")))

            # a harness CBMC did not finish (undecided) is, when it draws no symbolic value, a plain
            # test: run it natively against the real code. A tagged assertion failing there is a
            # real violation with its input (the harness's literals); anything else leaves the
            # harness undecided. Nothing times out on the unchanged tree, so this only ever runs
            # on changed code.
            for u, name in timed_out[:int(os.environ.get("VERIF_MAX_REPLAYS", "2"))]:
                hlog = os.path.join(log_dir, name)
                try:
                    pb = K.native_concrete(ws, u, u.fq(name), hlog)
                except Exception as e:  # noqa
                    pb = {"reproduced": None, "why": "native run crashed: %r" % (e,)}
                if pb.get("reproduced"):
                    tags = sorted(set(t for r_ in pb["runs"] for t in r_["tags_hit"] if t.startswith(pid + "/")))
                    if not tags:
                        continue
                    unknown = [{"tag": t.split("/", 1)[1] + "(native)"} for t in tags]
                    key = hashlib.sha256((name + "native").encode()).hexdigest()[:10]
                    rpath = os.path.join(VERIF, "replay", "%s-%s-%s.json" % (pid, name, key))
                    os.makedirs(os.path.dirname(rpath), exist_ok=True)
                    json.dump({
                        "property": pid, "engine": "kani", "unit": u.name, "harness": name, "fq_harness": u.fq(name),
                        "failed_obligations": [{"tag": t} for t in tags],
                        "verifier_output_tail": "CBMC gave no verdict within %ds; the harness draws no symbolic value and was executed natively" % timeout_s,
                        "playback": pb,
                        "how_to_replay": "bin/check --replay %s" % os.path.relpath(rpath, VERIF),
                    }, open(rpath, "w"), indent=1)
                    log("[%s] %s: no CBMC verdict, but the harness (no symbolic input) fails natively on %s" % (pid, name, ",".join(tags)))
                    violations.append((name, unknown, rpath, ""))

            # native replay of the verifier's counterexamples, cheapest harness first; at most
            # MAX_REPLAYS harnesses are replayed, the others are recorded in the first replay file
            refuted.sort(key=lambda x: x[0])
            max_replays = int(os.environ.get("VERIF_MAX_REPLAYS", "2"))
            no_replay = set(h["name"] for u_, h in sel if h.get("replay") == "none")
            for i, (_, u, name, unknown, res) in enumerate(refuted):
                key = hashlib.sha256((name + json.dumps([t["tag"] for t in unknown])).encode()).hexdigest()[:10]
                rpath = os.path.join(VERIF, "replay", "%s-%s-%s.json" % (pid, name, key))
                os.makedirs(os.path.dirname(rpath), exist_ok=True)
                replay = {
                    "property": pid, "engine": "kani", "unit": u.name, "harness": name, "fq_harness": u.fq(name),
                    "failed_obligations": [{"tag": t["tag"], "description": t["desc"], "location": t["loc"], "check_id": t.get("id")} for t in unknown],
                    "verifier_output_tail": res["raw_tail"],
                    "how_to_replay": "bin/check --replay %s" % os.path.relpath(rpath, VERIF),
                }
                if name in no_replay:
                    # the harness observes the callee through argument-recording `#[kani::stub]`s;
                    # natively the stubs are not applied (the real callee runs, nothing is
                    # recorded), so a native run of it fails whatever the code does and proves nothing
                    pb = {"reproduced": None, "why": "harness built on argument-recording stubs, which are not applied under native playback: CBMC's refutation stands, no native failing input"}
                elif i < max_replays:
                    hlog = os.path.join(log_dir, name)
                    os.makedirs(hlog, exist_ok=True)
                    log("[%s] %s refuted on %s; replaying the counterexample natively" % (pid, name, ",".join(t["tag"] for t in unknown)))
                    try:
                        pb = K.playback(ws, u, u.fq(name), [t["id"] for t in unknown if t.get("id")], timeout_s, hlog)
                    except Exception as e:  # noqa
                        pb = {"reproduced": None, "why": "playback crashed: %r" % (e,)}
                else:
                    pb = {"reproduced": None, "why": "not replayed: %d cheaper refuted harnesses of this run were replayed first (VERIF_MAX_REPLAYS)" % max_replays}
                replay["playback"] = pb
                json.dump(replay, open(rpath, "w"), indent=1)
                if pb.get("reproduced"):
                    violations.append((name, unknown, rpath, ""))
                elif pb.get("reproduced") is None:
                    # the verifier gave no replayable input (value-consuming stub, no test emitted, or not replayed)
                    violations.append((name, unknown, rpath, " no-failing-input-found"))
                else:
                    undecided.append("%s: CBMC refuted %s but the native replay of its counterexample does not fail -- "
                                     "model/real disagreement, not reported as a violation (see %s)" % (name, [t["tag"] for t in unknown], rpath))
    except K.LostAnchor as e:
        undecided.append("lost anchor: %s" % e)

    # ---------------- coverage ----------------
    proved = [r for r in per_harness if r.get("outcome") == "discharged" and not r.get("bounded")]
    bounded = [r for r in per_harness if r.get("outcome") == "discharged" and r.get("bounded")]
    # bounded harnesses (a stated bound on an input's size) are reported separately and are
    # never counted as proved obligations
    unb = [r for r in per_harness if not r["canary"] and not r.get("bounded")]
    bnd = [r for r in per_harness if not r["canary"] and r.get("bounded")]
    n_obl = sum(r.get("checks", 0) - r.get("unreachable", 0) for r in unb)
    n_dis = sum(r.get("success", 0) for r in unb)
    n_tag = sum(len(r.get("tagged", [])) for r in unb)
    n_tag_ok = sum(1 for r in unb for t in r.get("tagged", []) if t[1] == "SUCCESS")
    b_obl = sum(r.get("checks", 0) - r.get("unreachable", 0) for r in bnd)
    b_dis = sum(r.get("success", 0) for r in bnd)
    cov = {
        "obligations": n_obl,
        "discharged": n_dis,
        "tagged_obligations": n_tag,
        "tagged_discharged": n_tag_ok,
        "bounded_obligations": b_obl,
        "bounded_discharged": b_dis,
        "harnesses_unbounded_discharged": [r["harness"] for r in proved],
        "harnesses_bounded_discharged": [{"harness": r["harness"], "bound": r["bounded"]} for r in bounded],
        "solver_seconds_total": round(sum(r.get("solver_s") or 0 for r in per_harness), 1),
        "back_end": "Kani 0.68.0 / CBMC 6.11.0 (CaDiCaL)",
        "per_harness": per_harness,
        "samples": [
            {"harness": r["harness"], "tagged": r.get("tagged"), "solver_s": r.get("solver_s"), "outcome": r.get("outcome")}
            for r in per_harness[:6]
        ],
    }
    scan = C.scan_assumptions([u.path for u in units])
    return violations, known, undecided, cov, scan


def functions_under_contract(cfg):
    out, lost = [], []
    for f in cfg.get("functions", []):
        sp = C.fn_span(f["path"], f["fn"], f.get("impl"))
        if sp is None:
            lost.append("%s::%s" % (f["path"], f["fn"]))
        else:
            out.append(sp)
    return out, lost


def main():
    ap = argparse.ArgumentParser()
    ap.add_argument("property", nargs="?")
    ap.add_argument("--tier", default=os.environ.get("VERIF_TIER", "quick"), choices=["quick", "thorough"])
    ap.add_argument("--replay")
    a = ap.parse_args()
    if a.replay:
        import replay
        sys.exit(replay.main(a.replay))
    pid = a.property
    if pid not in PROPS:
        log("unknown or unclaimed property %r; claimed: %s" % (pid, " ".join(sorted(PROPS))))
        sys.exit(2)
    cfg = PROPS[pid]
    seed = int(os.environ.get("VERIF_SEED", "0"))
    clock = C.Clock()
    violations, known, undecided, cov, scan = [], [], [], {}, []
    fns, lost = functions_under_contract(cfg)
    for l in lost:
        undecided.append("lost anchor: function %s not found in the working tree" % l)
    try:
        if "kani" in cfg and not lost:
            v, k, u, cov, scan = run_kani_property(pid, cfg, a.tier, seed, clock)
            violations += v
            known += k
            undecided += u
        if "verus" in cfg and not lost:
            import verus_engine as V
            v, k, u, vcov, vscan = V.run_verus_property(pid, cfg, a.tier, seed, clock)
            violations += v
            known += k
            undecided += u
            if cov:
                merged = {**cov, **vcov}
                for key in ("obligations", "discharged"):
                    merged[key] = cov.get(key, 0) + vcov.get(key, 0)
                merged["solver_seconds_total"] = round(cov.get("solver_seconds_total", 0) + vcov.get("solver_seconds_total", 0), 1)
                merged["back_end"] = cov.get("back_end", "") + " + " + vcov.get("back_end", "")
                merged["samples"] = (vcov.get("samples", []) + cov.get("samples", []))[:8]
                cov = merged
            else:
                cov = vcov
            scan += vscan
    except Exception:
        undecided.append("check crashed: " + traceback.format_exc()[-1500:])

    level = cfg["level"]
    if level == "proof" and (undecided or violations or cov.get("obligations", 0) != cov.get("discharged", -1) or cov.get("obligations", 0) == 0):
        # never claim proof level for a run that did not discharge everything
        level = "other"
    cov.setdefault("obligations", 0)
    cov.setdefault("discharged", 0)
    cov["functions_under_contract"] = fns
    cov["clauses_decided"] = cfg.get("clauses", [])
    cov["clauses_not_decided"] = cfg.get("not_decided", [])
    cov["checker_cmd"] = cfg.get("checker_cmd", "")
    cov["trusted_base"] = cfg.get("trusted_base", [])
    cov["explanation"] = cfg.get("explanation", "")
    cov["undecided"] = undecided
    cov["known_findings_hit"] = [{"harness": h, "tag": t, "text": x} for h, t, x in known]
    cov["assumption_scan"] = scan
    cov["exhaustive"] = False
    ev = {
        "property_id": pid,
        "tier": a.tier,
        "seed": seed,
        "level": level,
        "coverage": cov,
        "assumptions": cfg.get("assumptions", []),
        "wall_s": clock.elapsed(),
        "violations": len(violations),
    }
    C.write_evidence(pid, ev)

    for h, t, x in known:
        log("KNOWN-FINDING: property=%s %s [%s/%s]" % (pid, x, h, t))
    for name, tags, rpath, suffix in violations:
        log("FAILED-OBLIGATION property=%s obligation=%s/%s" % (pid, name, "+".join(t["tag"] for t in tags)))
        log("VIOLATION property=%s replay=%s%s" % (pid, rpath, suffix))
    if violations:
        sys.exit(1)
    if undecided:
        for u in undecided:
            log("UNDECIDED property=%s %s" % (pid, u))
        sys.exit(2)
    log("[%s] OK: %d obligations discharged (%d tagged) + %d bounded, tier=%s, wall=%.0fs"
        % (pid, cov["discharged"], cov.get("tagged_discharged", 0), cov.get("bounded_discharged", 0), a.tier, clock.elapsed()))
    sys.exit(0)


if __name__ == "__main__":
    main()
