#!/usr/bin/env python3
"""Native counterexample search for Verus units (Verus gives no model).

Appends /verif/verus/native_search.rs as a #[cfg(test)] module to
typify-impl/src/type_entry.rs in a scratch copy of /repo's working tree and runs it
with the repository's own toolchain (offline)."""
import os
import re
import shutil
import subprocess

import vcommon as C

SCRATCH_ROOT = os.environ.get("VERIF_SCRATCH", "/var/tmp/typify-verif")


def search(pid, obligations, seed, log_dir, repo=None):
    repo = repo or C.REPO
    ws = os.path.join(SCRATCH_ROOT, pid + "-native")
    shutil.rmtree(ws, ignore_errors=True)
    os.makedirs(SCRATCH_ROOT, exist_ok=True)
    try:
        subprocess.run(["rsync", "-a", "--exclude", "/target", "--exclude", "/.git", repo + "/", ws + "/"], check=True)
        src = os.path.join(ws, "typify-impl/src/type_entry.rs")
        with open(src, "a") as f:
            f.write('\n#[cfg(test)]\n#[path = "%s"]\nmod verif_native_search;\n' % os.path.join(C.VERIF, "verus", "native_search.rs"))
        env = dict(os.environ)
        env["VERIF_SEED"] = str(seed)
        env["CARGO_NET_OFFLINE"] = "true"
        env["CARGO_TARGET_DIR"] = os.path.join(C.VERIF, "work", "native-target")
        env["RUSTFLAGS"] = "--cap-lints=warn"
        r = subprocess.run(
            ["cargo", "test", "--offline", "-p", "typify-impl", "--lib", "verif_native_search", "--", "--nocapture"],
            cwd=ws, capture_output=True, text=True, env=env, timeout=1800)
        out = r.stdout + r.stderr
        open(os.path.join(log_dir, "native-search.log"), "w").write(out)
        m = re.search(r"^NATIVE-FAIL (.*)$", out, re.M)
        if m:
            return {"found": True, "failing_input": m.group(1), "cmd": "cargo test -p typify-impl --lib verif_native_search (VERIF_SEED=%s)" % seed}
        if "NATIVE-SEARCH no failing sequence" in out and "NATIVE-SEARCH-API no failing history" in out:
            return {"found": False, "note": " | ".join(re.findall(r"^NATIVE-SEARCH.*$", out, re.M))}
        return {"found": False, "note": "native search did not run: " + out[-800:]}
    finally:
        shutil.rmtree(ws, ignore_errors=True)
