#!/usr/bin/env python3
"""confirm_seed.py <property> <seed dir with patch.diff + demo.diff> <name> [--suite]

Confirms a seeded change independently of the sub-agent that proposed it, in a scratch git
worktree of /repo (outside /repo and /verif, removed afterwards with its build output):
  1. patch.diff and demo.diff apply cleanly on HEAD
  2. demo passes on the unchanged sources
  3. demo fails with the change
  4. (--suite) the full existing test suite passes with the change (demo removed)
and, if all hold, stores /verif/seeded/<name>/{patch.diff, demo.diff, meta.json}.
"""
import json
import os
import re
import shutil
import subprocess
import sys

VERIF = os.path.dirname(os.path.dirname(os.path.abspath(__file__)))
REPO = "/repo"
TARGET = "/var/tmp/seed-confirm-target"


def sh(cmd, cwd, timeout=3600):
    env = dict(os.environ)
    env["CARGO_TARGET_DIR"] = TARGET
    env["CARGO_NET_OFFLINE"] = "true"
    p = subprocess.run(cmd, cwd=cwd, shell=True, capture_output=True, text=True, env=env, timeout=timeout)
    return p.returncode, p.stdout + p.stderr


def demo_tests(demo_diff):
    """test targets added by the demo: integration test file names under <crate>/tests/"""
    out = []
    for m in re.finditer(r"^\+\+\+ b/([\w-]+)/tests/(\w+)\.rs", demo_diff, re.M):
        out.append((m.group(1), m.group(2)))
    return out


def main():
    prop, src, name = sys.argv[1], sys.argv[2], sys.argv[3]
    suite = "--suite" in sys.argv
    wt = "/tmp/seedchk-" + name
    subprocess.run(["git", "-C", REPO, "worktree", "remove", "--force", wt], capture_output=True)
    subprocess.run(["git", "-C", REPO, "worktree", "add", "-q", "--detach", wt, "HEAD"], check=True)
    res = {"property": prop, "name": name, "head": subprocess.run(["git", "-C", REPO, "rev-parse", "HEAD"], capture_output=True, text=True).stdout.strip()}
    ok = False
    try:
        patch = os.path.join(src, "patch.diff")
        demo = os.path.join(src, "demo.diff")
        rc, out = sh("git apply --check %s && git apply --check %s" % (patch, demo), wt)
        res["applies"] = rc == 0
        if rc != 0:
            res["error"] = out[-800:]
            return res
        tests = demo_tests(open(demo).read())
        res["demo_tests"] = tests
        override = sys.argv[sys.argv.index("--test-cmd") + 1] if "--test-cmd" in sys.argv else None
        if not tests and not override:
            res["error"] = "demo.diff adds no <crate>/tests/*.rs file; confirm with --test-cmd"
            return res
        sh("git apply %s" % demo, wt)
        cmd = override or " && ".join("cargo test --offline -p %s --test %s" % (c, t) for c, t in tests)
        rc, out = sh(cmd, wt)
        res["demo_passes_on_unchanged"] = rc == 0
        res["demo_unchanged_tail"] = out[-600:]
        sh("git apply %s" % patch, wt)
        rc, out = sh(cmd, wt)
        res["demo_fails_with_change"] = rc != 0 and "test result: FAILED" in out
        res["demo_changed_tail"] = out[-1200:]
        if suite:
            # remove the demo, keep the change, run the whole suite
            sh("git apply -R %s" % demo, wt)
            rc, out = sh("cargo nextest run --workspace --no-fail-fast --tool-config-file pb:/w/lib/nextest.toml --profile pb --test-threads 8 --offline", wt, timeout=5400)
            m = re.search(r"(\d+) tests run: (\d+) passed", out)
            res["suite_with_change"] = {"rc": rc, "summary": m.group(0) if m else out[-400:]}
            res["suite_passes_with_change"] = rc == 0
        ok = res.get("demo_passes_on_unchanged") and res.get("demo_fails_with_change") and (not suite or res.get("suite_passes_with_change"))
        if ok:
            d = os.path.join(VERIF, "seeded", name)
            os.makedirs(d, exist_ok=True)
            shutil.copy(patch, os.path.join(d, "patch.diff"))
            shutil.copy(demo, os.path.join(d, "demo.diff"))
            if os.path.exists(os.path.join(src, "README.md")):
                shutil.copy(os.path.join(src, "README.md"), os.path.join(d, "AGENT_README.md"))
            meta = {
                "property": prop,
                "breaks": None,
                "needs_to_manifest": None,
                "confirmed": {k: res[k] for k in res if k.startswith(("demo_", "suite_", "applies", "head"))},
                "what_was_run": [
                    "git worktree add %s HEAD; git apply demo.diff; %s  (passes)" % (wt, cmd),
                    "git apply patch.diff; %s  (fails)" % cmd,
                ] + (["git apply -R demo.diff; cargo nextest run --workspace ... --offline  (%s)" % res["suite_with_change"]["summary"]] if suite else []),
                "detected_by": None,
            }
            json.dump(meta, open(os.path.join(d, "meta.json"), "w"), indent=1)
        return res
    finally:
        subprocess.run(["git", "-C", REPO, "worktree", "remove", "--force", wt], capture_output=True)
        res["kept"] = bool(ok)
        print(json.dumps({k: v for k, v in res.items() if not k.endswith("_tail")}, indent=1))


if __name__ == "__main__":
    main()
