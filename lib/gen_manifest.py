#!/usr/bin/env python3
"""Regenerate MANIFEST.json from lib/props.py and lib/manifest_texts.py."""
import json, os, sys
sys.path.insert(0, os.path.dirname(os.path.abspath(__file__)))
from props import PROPS
from manifest_texts import NOT_APPLICABLE, LEVEL_TEXT, LEVEL_NOTE, TECHNIQUE, BASELINE_OFF

ALL = ["C%02d" % i for i in range(1, 20)]
checks = []
for pid in sorted(PROPS):
    cfg = PROPS[pid]
    engine = "verus" if "verus" in cfg and "kani" not in cfg else ("kani+verus" if "verus" in cfg else "kani")
    checks.append({
        "property_id": pid,
        "quick_cmd": "bin/check %s --tier quick" % pid,
        "thorough_cmd": "bin/check %s --tier thorough" % pid,
        "evidence_file": "/verif/evidence/%s.json" % pid,
        "replay_cmd_template": "bin/check --replay {path}",
        "engine": engine,
        "level_claimed": {"category": cfg["level"], "text": LEVEL_TEXT[pid], "design_ref": "DESIGN.md §4 " + pid},
        "level_note": LEVEL_NOTE[pid],
        "technique": TECHNIQUE[pid],
    })
na = [{"property_id": p, "reason": NOT_APPLICABLE[p]} for p in ALL if p not in PROPS]
m = {
    "version": 1,
    "setup_cmd": "bin/setup",
    "hooks": {
        "guard": "cfg(kani)",
        "enable": "checks append `#[cfg(kani)] #[path=\"/verif/kani/<unit>.rs\"] mod verif_<unit>;` to the attached source file in a scratch copy of /repo's working tree (never in /repo) and build it with `cargo kani`, the only compiler that sets cfg(kani); the Verus checks extract function text mechanically into a generated file. No hook is committed to /repo.",
        "baseline_off_cmd": BASELINE_OFF,
        "source_commits": [],
        "add_only": True,
    },
    "engines": [
        {"name": "kani", "path": "lib/kani_engine.py", "serves_properties": [p for p in sorted(PROPS) if "kani" in PROPS[p]],
         "kind_free_text": "Kani 0.68 / CBMC 6.11 on the real crate compiled from a scratch copy of the working tree; postconditions asserted over fully symbolic scalar inputs; counterexamples replayed natively"},
        {"name": "verus", "path": "lib/verus_engine.py", "serves_properties": [p for p in sorted(PROPS) if "verus" in PROPS[p]],
         "kind_free_text": "Verus 0.2026.09.13 on function text extracted mechanically from /repo on every run, contracts spliced from /verif/verus/contracts"},
    ],
    "checks": checks,
    "not_applicable": na,
    "notes": "Exit codes: 0 all obligations discharged; 1 VIOLATION (unlisted); 2 UNDECIDED (tool limit, timeout, lost anchor, vacuity guard) -- never an alarm. See DESIGN.md.",
}
json.dump(m, open(os.path.join(os.path.dirname(__file__), "..", "MANIFEST.json"), "w"), indent=1)
print("MANIFEST.json: %d checks, %d not_applicable" % (len(checks), len(na)))
