#!/usr/bin/env python3
"""Build a cargo directory source from the .crate files cached on disk.

usage: vendor.py <Cargo.lock> <out dir>
Every [[package]] with a registry source is located in
~/.cargo/registry/cache/*/<name>-<version>.crate, its sha256 is compared with
the lock file's checksum, and it is unpacked to <out>/<name>-<version>/ with a
.cargo-checksum.json of the form cargo expects for a directory source.
Idempotent: packages already unpacked with the right checksum are skipped.
"""
import glob, hashlib, json, os, re, sys, tarfile, shutil

def parse_lock(path):
    pkgs, cur = [], None
    for line in open(path):
        line = line.rstrip("\n")
        if line == "[[package]]":
            cur = {}
            pkgs.append(cur)
        elif cur is not None:
            m = re.match(r'^(name|version|source|checksum) = "(.*)"$', line)
            if m:
                cur[m.group(1)] = m.group(2)
    return pkgs

def main():
    lock, out = sys.argv[1], sys.argv[2]
    os.makedirs(out, exist_ok=True)
    cache = {}
    for p in glob.glob(os.path.expanduser("~/.cargo/registry/cache/*/*.crate")):
        cache.setdefault(os.path.basename(p), []).append(p)
    missing = []
    n = 0
    for pkg in parse_lock(lock):
        if "source" not in pkg or not pkg["source"].startswith("registry+"):
            continue
        base = f'{pkg["name"]}-{pkg["version"]}'
        dst = os.path.join(out, base)
        ck = os.path.join(dst, ".cargo-checksum.json")
        if os.path.exists(ck):
            try:
                if json.load(open(ck)).get("package") == pkg.get("checksum"):
                    n += 1
                    continue
            except Exception:
                pass
        found = None
        for cand in cache.get(base + ".crate", []):
            h = hashlib.sha256(open(cand, "rb").read()).hexdigest()
            if h == pkg.get("checksum"):
                found = cand
                break
        if not found:
            missing.append(base)
            continue
        if os.path.exists(dst):
            shutil.rmtree(dst)
        with tarfile.open(found, "r:gz") as tf:
            tf.extractall(out)
        json.dump({"files": {}, "package": pkg["checksum"]}, open(ck, "w"))
        n += 1
    if missing:
        print("vendor: MISSING from the on-disk cache: " + " ".join(missing), file=sys.stderr)
        sys.exit(1)
    print(f"vendor: {n} packages in {out}")

if __name__ == "__main__":
    main()
