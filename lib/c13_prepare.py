#!/usr/bin/env python3
"""C13: mechanical extraction of the crate/version POLICY slice of
`TypeSpace::convert_rust_extension` (typify-impl/src/rust_extension.rs) for Kani.

The whole function is out of reach (serde_json::from_value on the extension value, the
conversion driver for the type parameters). The statements from
    let crate_ident = crate_name.replace('-', "_");
to the end of the block
    let path = { ... };
-- the path/crate consistency test, the lookup of the crate in the settings, the version
test, the rename and the unknown-crate policy -- are copied UNCHANGED and wrapped, in the
scratch copy only, as

    #[cfg(kani)]
    impl TypeSpace {
        pub(crate) fn verif_slice_rust_ext_policy(&self, schema: &SchemaObject, crate_name: String,
                req: semver::VersionReq, path: String) -> Option<String> {
            <slice text>
            Some(path)
        }
    }

appended to rust_extension.rs. The slice's `return None` / `?` become the wrapper's result
None = "generate the type from the schema"; Some(p) = "substitute the external path p".
`schema` is only used by the slice's warn!() message.
"""
import hashlib
import json
import os
import re
import sys

sys.path.insert(0, os.path.dirname(os.path.abspath(__file__)))
from vcommon import strip_strings_and_comments, find_item, match_brace


def extract(repo_dir):
    rel = "typify-impl/src/rust_extension.rs"
    src = open(os.path.join(repo_dir, rel)).read()
    clean = strip_strings_and_comments(src)
    sp = find_item(src, r"^    pub\(crate\) fn convert_rust_extension\b", clean)
    if not sp:
        raise RuntimeError("lost anchor: fn convert_rust_extension")
    body, cbody = src[sp[0]:sp[1]], clean[sp[0]:sp[1]]
    m1 = re.search(r"^        let crate_ident = crate_name\.replace\(", cbody, re.M)
    m2 = re.search(r"^        let path = \{", cbody, re.M)
    if not m1 or not m2 or m2.start() < m1.start():
        raise RuntimeError("lost anchor: policy slice of convert_rust_extension")
    ob = cbody.find("{", m2.end() - 1)
    cb = match_brace(cbody, ob)
    end = cbody.find(";", cb) + 1
    text = body[m1.start():end]
    free = set(re.findall(r"\b(parameters|version|x_rust)\b", strip_strings_and_comments(text))) - {"version"}
    if free:
        raise RuntimeError("the policy slice now uses %s" % sorted(free))
    l1 = src.count("\n", 0, sp[0] + m1.start()) + 1
    return text, {"item": "TypeSpace::convert_rust_extension [crate/version policy slice]", "file": rel,
                  "lines": "%d-%d" % (l1, l1 + text.count("\n")), "sha256_repo_text": hashlib.sha256(text.encode()).hexdigest()}


def prepare(ws_dir):
    try:
        text, item = extract(ws_dir)
    except RuntimeError as e:
        import kani_engine
        raise kani_engine.LostAnchor(str(e))
    wrapper = ("\n#[cfg(kani)]\nimpl TypeSpace {\n"
               "    pub(crate) fn verif_slice_rust_ext_policy(\n        &self,\n        schema: &SchemaObject,\n"
               "        crate_name: String,\n        req: semver::VersionReq,\n        path: String,\n    ) -> Option<String> {\n"
               + text + "\n        Some(path)\n    }\n}\n")
    with open(os.path.join(ws_dir, "typify-impl/src/rust_extension.rs"), "a") as f:
        f.write(wrapper)
    json.dump([item], open(os.path.join(ws_dir, "verif-c13-extraction.json"), "w"), indent=1)


if __name__ == "__main__":
    print(extract(sys.argv[1] if len(sys.argv) > 1 else "/repo")[0])
