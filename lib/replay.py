#!/usr/bin/env python3
"""check --replay <file>: re-execute a recorded counterexample NATIVELY against /repo's
current working tree.

kani replay files carry the concrete-playback unit test Kani generated from CBMC's trace;
it is appended to the harness unit in a scratch copy and run with `cargo kani playback`
(plain rustc + the kani playback library: the real function runs on the concrete inputs).

verus replay files carry the failing call sequence found by the native search; the search
is re-run with the same seed.

exit 1 + VIOLATION line if the counterexample still fails, exit 0 if it passes now,
exit 2 if it cannot be run (no input was recorded, build failure).
"""
import json
import os
import re
import shutil
import subprocess
import sys

sys.path.insert(0, os.path.dirname(os.path.abspath(__file__)))
import kani_engine as K
import vcommon as C
from props import PROPS


def main(path):
    if not os.path.isabs(path):
        path = os.path.join(C.VERIF, path)
    r = json.load(open(path))
    pid = r["property"]
    if r.get("engine") == "verus" or str(r.get("engine", "")).startswith("native search"):
        import native_search
        ns = r.get("native_search", {})
        seed = 0
        m = re.search(r"seed=(\d+)", ns.get("failing_input", "") or "")
        if m:
            seed = int(m.group(1))
        log_dir = os.path.join(C.VERIF, "work", "logs", pid + "-replay")
        os.makedirs(log_dir, exist_ok=True)
        found = native_search.search(pid, r.get("failed_obligations", []), seed, log_dir)
        if found.get("found"):
            print("replay: still fails natively: " + found["failing_input"][:400])
            print("VIOLATION property=%s replay=%s" % (pid, path))
            return 1
        print("replay: no failing call sequence any more (%s)" % found.get("note", ""))
        return 0
    runs = (r.get("playback") or {}).get("runs") or []
    tests = [x for x in runs if x.get("test_src")]
    if not tests:
        print("replay: this file carries no concrete input (%s)" % (r.get("playback") or {}).get("why", "no playback"))
        return 2
    cfg = PROPS[pid]
    groups = cfg["kani"] if isinstance(cfg["kani"], list) else [cfg["kani"]]
    grp = [g for g in groups if r["unit"] in g["units"]][0]
    units = K.load_units((["common"] if grp.get("package", "typify-impl") == "typify-impl" else []) + [r["unit"]])
    unit = [u for u in units if u.name == r["unit"]][0]
    extra = None
    if grp.get("prepare"):
        import importlib
        extra = importlib.import_module(grp["prepare"]).prepare
    still = False
    with K.Workspace(pid + "-replay", units, package=grp.get("package", "typify-impl"), extra_prepare=extra) as ws:
        for i, t in enumerate(tests):
            m = re.search(r"fn (kani_concrete_playback_\w+)", t["test_src"])
            tname = m.group(1)
            unit_copy = os.path.join(ws.dir, "verif_replay_%s_%d.rs" % (unit.name, i))
            shutil.copy(unit.path, unit_copy)
            open(unit_copy, "a").write("\n" + t["test_src"] + "\n")
            src = os.path.join(ws.dir, unit.attach)
            s = open(src).read()
            s2 = re.sub(r'#\[path = "[^"]*"\]\npub\(crate\) mod verif_%s;' % re.escape(unit.name),
                        '#[path = "%s"]\npub(crate) mod verif_%s;' % (unit_copy, unit.name), s)
            open(src, "w").write(s2)
            env = dict(os.environ)
            env["RUSTFLAGS"] = "--cap-lints=warn"
            env["CARGO_NET_OFFLINE"] = "true"
            env["CARGO_TARGET_DIR"] = K.PLAYBACK_TARGET
            p = subprocess.run(["cargo", "kani", "playback", "-p", ws.package, "-Z", "concrete-playback", "--", tname],
                               cwd=ws.dir, capture_output=True, text=True, env=env, timeout=1800)
            out = p.stdout + p.stderr
            open(src, "w").write(s)
            tags = re.findall(r"\[(C\d+/[A-Za-z0-9_.-]+)\][^\n]*", out)
            failed = "test result: FAILED" in out or "panicked at" in out
            print("replay: %s -> %s %s" % (tname, "FAILS" if failed else "passes", sorted(set(tags))))
            if "could not compile" in out:
                print(out[-1500:])
                return 2
            still = still or (failed and bool(tags))
    if still:
        print("VIOLATION property=%s replay=%s" % (pid, path))
        return 1
    return 0
