use schemars::schema::Schema;
use typify_impl::TypeSpace;

#[test]
fn same_definition_added_twice() {
    let schema: Schema = serde_json::from_value(serde_json::json!({
        "type": "object",
        "properties": { "a": { "type": "string" } }
    }))
    .unwrap();
    let mut ts = TypeSpace::default();
    ts.add_ref_types([("Foo", schema.clone())]).unwrap();
    let n1 = ts.iter_types().count();
    let out1 = ts.to_stream().to_string();
    ts.add_ref_types([("Foo", schema.clone())]).unwrap();
    let n2 = ts.iter_types().count();
    let out2 = ts.to_stream().to_string();
    println!("types before {} after {}", n1, n2);
    let defs = out2.matches("pub struct Foo ").count();
    println!("definitions of Foo: {} (before: {})", defs, out1.matches("pub struct Foo ").count());
    assert_eq!(defs, 1, "two definitions of one name in the rendered output");
}
