// @unit c13_whole property=C13 attach=typify-impl/src/rust_extension.rs
// @h c13_whole_function_literals tier=native bounded=13-literal-extension-values-against-literal-settings
// @native-canary canary_c13_whole
//
// C13 -- the WHOLE of `convert_rust_extension` (not the policy slice of c13_policy), with the
// settings built through the public `TypeSpaceSettings::with_crate` / `with_unknown_crates`, on
// literal `x-rust-type` values. BOUNDED STAND-IN (`tier=native`): deserialising the extension,
// `VersionReq::parse` and the B-tree lookup are in reach of neither verifier.
//
//   W1  a configured crate is found under the name the schema uses -- also a HYPHENATED one
//       (the two cooperating sites: with_crate stores, convert_rust_extension looks up)
//   W2  a requirement that does not parse is never substituted: not for a crate configured `*`,
//       not for an unconfigured crate under Allow
//   W3  a configured rename replaces exactly the FIRST path segment, also when the crate's
//       identifier occurs again later in the path
//   W4  the version cells: `*` / `!` / satisfied / unsatisfied / pre-release, and the three
//       unknown-crate policies for an unconfigured crate
//   W5  a path whose first segment is not the crate's identifier is never substituted

use super::*;
use crate::type_entry::TypeEntryDetails;
use crate::{TypeSpaceSettings, UnknownPolicy};

/// the Rust path substituted for the schema, or None when the schema's own structure is used
fn substituted(settings: &TypeSpaceSettings, crate_name: &str, version: &str, path: &str) -> Option<String> {
    let mut ts = TypeSpace::new(settings);
    let mut schema = SchemaObject::default();
    schema.extensions.insert(
        "x-rust-type".to_string(),
        serde_json::json!({ "crate": crate_name, "version": version, "path": path }),
    );
    ts.convert_rust_extension(&schema).map(|e| match e.details {
        TypeEntryDetails::Native(n) => n.type_name,
        _ => panic!("[TOOL] a substituted extension is not a native type"),
    })
}

fn expect(got: Option<String>, want: Option<&str>, msg: &'static str) {
    // the leading `::` of the rendered path is representation, not policy
    let norm = |s: &str| s.trim_start_matches("::").to_string();
    if got.as_deref().map(norm) != want.map(norm) {
        panic!("{} (got {:?}, want {:?})", msg, got, want);
    }
}

#[kani::proof]
fn c13_whole_function_literals() {
    let v = |s: &str| CrateVers::Version(semver::Version::parse(s).unwrap());
    // W1
    let mut s = TypeSpaceSettings::default();
    s.with_crate("my-crate", CrateVers::Any, None);
    expect(substituted(&s, "my-crate", "1", "my_crate::Thing"), Some("::my_crate::Thing"), "[C13/W1] a configured hyphenated crate is not found under the name the schema uses");
    let mut s = TypeSpaceSettings::default();
    s.with_unknown_crates(UnknownPolicy::Allow);
    s.with_crate("my-crate", CrateVers::Never, None);
    expect(substituted(&s, "my-crate", "1", "my_crate::Thing"), None, "[C13/W1] a hyphenated crate marked `!` was substituted (treated as unconfigured)");
    // W2
    let mut s = TypeSpaceSettings::default();
    s.with_crate("uuid", CrateVers::Any, None);
    expect(substituted(&s, "uuid", "not a version", "uuid::Uuid"), None, "[C13/W2] a malformed version requirement was substituted for a crate configured `*`");
    expect(substituted(&s, "uuid", "1.2.3.4", "uuid::Uuid"), None, "[C13/W2] a malformed version requirement was substituted for a crate configured `*`");
    let mut s = TypeSpaceSettings::default();
    s.with_unknown_crates(UnknownPolicy::Allow);
    expect(substituted(&s, "uuid", "^^1", "uuid::Uuid"), None, "[C13/W2] a malformed version requirement was substituted for an unconfigured crate under Allow");
    // W3
    let mut s = TypeSpaceSettings::default();
    s.with_crate("oxnet", CrateVers::Any, Some(&"net2".to_string()));
    expect(
        substituted(&s, "oxnet", "1", "oxnet::oxnet_types::Thing"),
        Some("::net2::oxnet_types::Thing"),
        "[C13/W3] a configured rename did not replace exactly the first path segment",
    );
    let mut s = TypeSpaceSettings::default();
    s.with_crate("uuid", v("1.2.3"), Some(&"my-uuid".to_string()));
    expect(substituted(&s, "uuid", "^1.0", "uuid::fmt::Simple"), Some("::my_uuid::fmt::Simple"), "[C13/W3] a configured rename did not replace exactly the first path segment");
    // W4
    let mut s = TypeSpaceSettings::default();
    s.with_crate("uuid", v("1.2.3"), None);
    expect(substituted(&s, "uuid", "^1.0", "uuid::Uuid"), Some("::uuid::Uuid"), "[C13/W4] version 1.2.3 satisfies ^1.0 but the type was generated");
    expect(substituted(&s, "uuid", "^2", "uuid::Uuid"), None, "[C13/W4] version 1.2.3 does not satisfy ^2 but the type was substituted");
    let mut s = TypeSpaceSettings::default();
    s.with_crate("uuid", v("1.2.3-rc.1"), None);
    expect(substituted(&s, "uuid", "^1.0", "uuid::Uuid"), None, "[C13/W4] pre-release 1.2.3-rc.1 does not satisfy ^1.0 but the type was substituted");
    for (policy, want) in [
        (UnknownPolicy::Generate, None),
        (UnknownPolicy::Allow, Some("::uuid::Uuid")),
        (UnknownPolicy::Deny, None),
    ] {
        let mut s = TypeSpaceSettings::default();
        s.with_unknown_crates(policy);
        expect(substituted(&s, "uuid", "1", "uuid::Uuid"), want, "[C13/W4] an unconfigured crate is not handled by the unknown-crate policy");
    }
    // W5
    let mut s = TypeSpaceSettings::default();
    s.with_crate("uuid", CrateVers::Any, None);
    expect(substituted(&s, "uuid", "1", "uuid2::Uuid"), None, "[C13/W5] a path whose first segment is not the crate was substituted");
}

#[kani::proof]
fn canary_c13_whole() {
    let mut s = TypeSpaceSettings::default();
    s.with_crate("uuid", CrateVers::Any, None);
    expect(substituted(&s, "uuid", "1", "uuid::Uuid"), None, "[CANARY] a crate configured `*` is never substituted");
}
