// @unit c13_name_match property=C13 attach=typify-impl/src/type_entry.rs
// @h c13_name_match_literals tier=both bounded=enumerated-literal-names
// @canary canary_c13_name_match
//
// C13 -- "the external path is what stands for the schema ... directly, or through a
// transparent newtype named after the definition when the names differ"
// (`TypeEntryNative::name_match`, consulted by convert_ref_type).
//
//   P7  a parameterless native type is used WITHOUT a wrapper exactly when the definition's
//       (required) name equals the LAST segment of the external path; a suggested or
//       unknown name never matches; a native type with parameters always matches
//
// Names and paths are literals (enumerated); a symbolic selector chooses between calls.

use super::*;

fn native(path: &str, params: usize) -> TypeEntryNative {
    TypeEntryNative {
        type_name: path.to_string(),
        impls: Vec::new(),
        parameters: if params == 0 { Vec::new() } else { vec![TypeId(1)] },
    }
}

fn check(path: &str, params: usize, name: Name, want: bool) {
    let n = native(path, params);
    let got = n.name_match(&name);
    kani::assert(
        got == want,
        "[C13/P7] a native type is (not) used without its wrapper although the definition name differs from (equals) the path's last segment",
    );
    core::mem::forget(n);
    core::mem::forget(name);
}

#[kani::proof]
#[kani::unwind(40)]
fn c13_name_match_literals() {
    let k: u8 = kani::any();
    match k {
        0 => check("::ext::path::PathBuf", 0, Name::Required("PathBuf".to_string()), true),
        1 => check("::ext::path::PathBuf", 0, Name::Required("Buf".to_string()), false),
        2 => check("::ext::DateTime", 0, Name::Required("Time".to_string()), false),
        3 => check("::ext::DateTime", 0, Name::Required("DateTime2".to_string()), false),
        4 => check("::uuid::Uuid", 0, Name::Suggested("Uuid".to_string()), false),
        5 => check("::uuid::Uuid", 0, Name::Unknown, false),
        6 => check("::std::vec::Vec", 1, Name::Required("Other".to_string()), true),
        _ => check("Uuid", 0, Name::Required("Uuid".to_string()), true),
    }
    kani::cover!(k == 1, "[must] the suffix case is probed");
}

#[kani::proof]
#[kani::unwind(40)]
fn canary_c13_name_match() {
    let n = native("::uuid::Uuid", 0);
    let name = Name::Required("Uuid".to_string());
    kani::assert(!n.name_match(&name), "[CANARY] equal names never match");
    core::mem::forget(n);
    core::mem::forget(name);
}
