// @unit c14_cache property=C14 attach=typify-impl/src/convert.rs
// @h c14_cache_answer_is_used tier=off
// @h c14_no_cache_answer_falls_through tier=off
// @h c14_bool_schemas_bypass_cache tier=off
// @canary canary_c14_cache
//
// C14 -- "every subschema equal (ignoring annotations) to a conversion schema uses the
// conversion type": routing obligation on `convert_schema`, the single entry point through
// which every subschema is converted.
//
//   K1  for an object schema, the conversion cache is consulted FIRST and exactly once; if
//       it answers Some(entry), convert_schema returns exactly that entry with the schema's
//       own metadata and runs no structural conversion
//   K2  if it answers None, convert_schema_object converts the schema (once)
//   K3  the boolean schemas never consult the cache (true => the permissive type)
//
// RESULT: NOT part of any check. K3 verifies (32 s) but K1 / K2 do not terminate within 15
// minutes (cause not found; the analogous routing harnesses on convert_schema_object verify in
// about a minute), so C14 stays not applicable. Kept with tier=off for the record.
//
// SchemaCache::lookup (schema equality ignoring metadata) is NOT verified: it is replaced by
// a recording stub, as is convert_schema_object.

use super::*;
use crate::type_entry::{TypeEntry, TypeEntryDetails};
use crate::verif_common::empty_type_space;

static mut LOOKUPS: u8 = 0;
static mut LOOKUP_ANSWERS: bool = false;
static mut OBJECT_CONVERSIONS: u8 = 0;

fn stub_lookup(_cache: &crate::conversions::SchemaCache, _schema: &SchemaObject) -> Option<TypeEntry> {
    unsafe {
        LOOKUPS += 1;
        if LOOKUP_ANSWERS {
            Some(TypeEntry::new_native_params("::conv::MARK", &[]))
        } else {
            None
        }
    }
}

fn stub_convert_schema_object<'a>(
    _ts: &mut TypeSpace,
    _type_name: Name,
    _original_schema: &'a Schema,
    schema: &'a SchemaObject,
) -> Result<(TypeEntry, &'a Option<Box<Metadata>>)> {
    unsafe {
        OBJECT_CONVERSIONS += 1;
    }
    Ok((TypeEntryDetails::Integer(String::from("STRUCTURAL")).into(), &schema.metadata))
}

/// the argument of convert_schema's `info!(..)` log statement: pretty-printing the schema
/// (serde serialisation) is irrelevant to the result and far outside CBMC's reach
fn stub_to_string_pretty<T: ?Sized + serde::Serialize>(_value: &T) -> serde_json::Result<String> {
    Ok(String::new())
}

macro_rules! stubs {
    (fn $name:ident() $body:block) => {
        #[kani::proof]
        #[kani::unwind(24)]
        #[kani::stub(crate::MapType::new, crate::verif_common::stub_map_type_new)]
        #[kani::stub(crate::util::sanitize, crate::verif_common::stub_sanitize)]
        #[kani::stub(regress::Regex::new, crate::verif_common::stub_regex_new)]
        #[kani::stub(serde_json::to_string_pretty, stub_to_string_pretty)]
        #[kani::stub(crate::conversions::SchemaCache::lookup, stub_lookup)]
        #[kani::stub(crate::TypeSpace::convert_schema_object, stub_convert_schema_object)]
        fn $name() $body
    };
}

/// returns 1 = the cache's entry with the schema's metadata, 2 = the structural entry, 0 = other
fn run_object(answers: bool) -> u8 {
    let mut ts = empty_type_space();
    unsafe {
        LOOKUP_ANSWERS = answers;
    }
    let schema = Schema::Object(SchemaObject {
        instance_type: Some(SingleOrVec::Single(Box::new(InstanceType::String))),
        ..Default::default()
    });
    let r = ts.convert_schema(Name::Unknown, &schema);
    let meta_addr = match &schema {
        Schema::Object(o) => &o.metadata as *const _ as usize,
        _ => 0,
    };
    let what = match &r {
        Ok((TypeEntry { details: TypeEntryDetails::Native(n), .. }, m))
            if n.type_name == "::conv::MARK" && (*m as *const _ as usize) == meta_addr =>
        {
            1
        }
        Ok((TypeEntry { details: TypeEntryDetails::Integer(n), .. }, _)) if n == "STRUCTURAL" => 2,
        _ => 0,
    };
    core::mem::forget(r);
    core::mem::forget(schema);
    core::mem::forget(ts);
    what
}

stubs! {
    fn c14_cache_answer_is_used() {
        let what = run_object(true);
        unsafe {
            kani::assert(LOOKUPS == 1, "[C14/K1] the conversion cache is not consulted exactly once");
            kani::assert(
                what == 1,
                "[C14/K1] a schema matching a conversion does not use the conversion type (with its own metadata)",
            );
            kani::assert(
                OBJECT_CONVERSIONS == 0,
                "[C14/K1] the schema was converted structurally although a conversion matched",
            );
        }
    }
}

stubs! {
    fn c14_no_cache_answer_falls_through() {
        let what = run_object(false);
        unsafe {
            kani::assert(LOOKUPS == 1, "[C14/K2] the conversion cache is not consulted exactly once");
            kani::assert(
                what == 2 && OBJECT_CONVERSIONS == 1,
                "[C14/K2] a schema without a matching conversion is not converted from its structure",
            );
        }
    }
}

stubs! {
    fn c14_bool_schemas_bypass_cache() {
        let mut ts = empty_type_space();
        let schema = Schema::Bool(true);
        let r = ts.convert_schema(Name::Unknown, &schema);
        unsafe {
            kani::assert(LOOKUPS == 0 && OBJECT_CONVERSIONS == 0, "[C14/K3] the permissive schema consulted the cache");
        }
        kani::assert(
            matches!(&r, Ok((TypeEntry { details: TypeEntryDetails::JsonValue, .. }, _))),
            "[C14/K3] the permissive schema did not become serde_json::Value",
        );
        core::mem::forget(r);
        core::mem::forget(ts);
    }
}

stubs! {
    fn canary_c14_cache() {
        let _ = run_object(true);
        unsafe {
            kani::assert(LOOKUPS == 0, "[CANARY] the cache is never consulted");
        }
    }
}
