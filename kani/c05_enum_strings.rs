// @unit c05_enum_strings property=C05 attach=typify-impl/src/convert.rs
// @h c05_route_enum_string tier=both replay=none
// @h c05_enum_string_filter tier=off bounded=enum-of-3-literal-strings
// @canary canary_c05_enum_strings
//
// C05 -- "membership in enumerated values" combined with "minLength / maxLength counted in
// Unicode scalar values", at generation time.
//
//   R4  ROUTING (convert_schema_object): a {type: string, enum: [...]} schema is converted by
//       exactly one call of convert_enum_string, with the schema's own enum values and its
//       own string validation (so the length constraints reach the filter)
//   P3  (NOT DECIDED: the harness is kept with tier=off -- the `flat_map(..).collect()` chain of
//       convert_enum_string does not terminate in CBMC within 15 minutes, like the Enum arm of
//       get_child_ids) convert_enum_string keeps exactly the enumerated strings whose length in Unicode
//       scalar values satisfies the bounds (bounds symbolic; values "é", "ab", "xyz" of 1, 2,
//       3 scalar values, "é" being 2 bytes), in order; if none survives the schema is rejected
//
// Callees are replaced by argument-recording stubs (TypeEntryEnum::from_metadata reaches
// sanitize / syn and is not verifiable; it only receives the surviving variants).

use super::*;
use crate::type_entry::{TypeEntry, TypeEntryDetails};
use crate::verif_common::empty_type_space;
use schemars::schema::StringValidation;

static mut ENUM_CALLS: u8 = 0;
static mut ENUM_VALUES_ADDR: usize = 0;
static mut ENUM_VALUES_LEN: usize = 0;
static mut ENUM_VALIDATION: Option<(Option<u32>, Option<u32>)> = None;
static mut OTHER_CALLS: u8 = 0;

fn stub_convert_enum_string<'a>(
    _ts: &mut TypeSpace,
    _type_name: Name,
    _original_schema: &'a Schema,
    metadata: &'a Option<Box<Metadata>>,
    enum_values: &[serde_json::Value],
    validation: Option<&StringValidation>,
) -> Result<(TypeEntry, &'a Option<Box<Metadata>>)> {
    unsafe {
        ENUM_CALLS += 1;
        ENUM_VALUES_ADDR = enum_values.as_ptr() as usize;
        ENUM_VALUES_LEN = enum_values.len();
        ENUM_VALIDATION = validation.map(|v| (v.max_length, v.min_length));
    }
    Ok((TypeEntryDetails::Unit.into(), metadata))
}

fn stub_convert_string<'a>(
    _ts: &mut TypeSpace,
    _type_name: Name,
    _original_schema: &'a Schema,
    metadata: &'a Option<Box<Metadata>>,
    _format: &Option<String>,
    _validation: Option<&StringValidation>,
) -> Result<(TypeEntry, &'a Option<Box<Metadata>>)> {
    unsafe {
        OTHER_CALLS += 1;
    }
    Ok((TypeEntryDetails::Unit.into(), metadata))
}

#[kani::proof]
#[kani::unwind(24)]
#[kani::stub(crate::MapType::new, crate::verif_common::stub_map_type_new)]
#[kani::stub(crate::util::sanitize, crate::verif_common::stub_sanitize)]
#[kani::stub(regress::Regex::new, crate::verif_common::stub_regex_new)]
#[kani::stub(crate::TypeSpace::convert_enum_string, stub_convert_enum_string)]
#[kani::stub(crate::TypeSpace::convert_string, stub_convert_string)]
fn c05_route_enum_string() {
    let mut ts = empty_type_space();
    let present: bool = kani::any();
    let max_length: Option<u32> = kani::any();
    let min_length: Option<u32> = kani::any();
    let obj = SchemaObject {
        instance_type: Some(SingleOrVec::Single(Box::new(InstanceType::String))),
        enum_values: Some(vec![serde_json::Value::Null, serde_json::Value::Null]),
        string: if present {
            Some(Box::new(StringValidation { max_length, min_length, pattern: None }))
        } else {
            None
        },
        ..Default::default()
    };
    let original = Schema::Bool(true);
    let r = ts.convert_schema_object(Name::Unknown, &original, &obj);
    unsafe {
        kani::assert(
            ENUM_CALLS == 1 && OTHER_CALLS == 0,
            "[C05/R4] an enumerated string schema is not converted by exactly one call of convert_enum_string",
        );
        let own = obj.enum_values.as_ref().unwrap();
        kani::assert(
            ENUM_VALUES_ADDR == own.as_ptr() as usize && ENUM_VALUES_LEN == own.len(),
            "[C05/R4] convert_enum_string is not given the schema's own enumerated values",
        );
        kani::assert(
            ENUM_VALIDATION == if present { Some((max_length, min_length)) } else { None },
            "[C05/R4] convert_enum_string is not given the schema's own length constraints",
        );
    }
    kani::assert(r.is_ok(), "[C05/R4] the driver does not return convert_enum_string's result");
    kani::cover!(present && max_length.is_some(), "[must] constrained enum reachable");
    core::mem::forget(r);
    core::mem::forget(obj);
    core::mem::forget(ts);
}

// ---------------------------------------------------------------- the filter itself

static mut META_CALLS: u8 = 0;
static mut KEPT: [bool; 3] = [false; 3];
static mut KEPT_COUNT: usize = 0;
static mut KEPT_IN_ORDER: bool = true;

fn stub_enum_from_metadata(
    _type_space: &TypeSpace,
    _type_name: Name,
    _metadata: &Option<Box<Metadata>>,
    _tag_type: crate::type_entry::EnumTagType,
    variants: Vec<crate::type_entry::Variant>,
    _deny_unknown_fields: bool,
    _schema: Schema,
) -> TypeEntry {
    unsafe {
        META_CALLS += 1;
        KEPT_COUNT = variants.len();
        let mut last: usize = 0;
        let mut i = 0;
        while i < variants.len() {
            let idx = if variants[i].raw_name == "é" {
                0
            } else if variants[i].raw_name == "ab" {
                1
            } else if variants[i].raw_name == "xyz" {
                2
            } else {
                3
            };
            if idx < 3 {
                KEPT[idx] = true;
                if i > 0 && idx <= last {
                    KEPT_IN_ORDER = false;
                }
                last = idx;
            } else {
                KEPT_IN_ORDER = false;
            }
            i += 1;
        }
    }
    core::mem::forget(variants);
    TypeEntryDetails::Unit.into()
}

#[kani::proof]
#[kani::unwind(24)]
#[kani::stub(crate::MapType::new, crate::verif_common::stub_map_type_new)]
#[kani::stub(crate::util::sanitize, crate::verif_common::stub_sanitize)]
#[kani::stub(regress::Regex::new, crate::verif_common::stub_regex_new)]
#[kani::stub(crate::type_entry::TypeEntryEnum::from_metadata, stub_enum_from_metadata)]
fn c05_enum_string_filter() {
    let mut ts = empty_type_space();
    let max_length: Option<u32> = kani::any();
    let min_length: Option<u32> = kani::any();
    let validation = StringValidation { max_length, min_length, pattern: None };
    let values = vec![
        serde_json::Value::String(String::from("é")),
        serde_json::Value::String(String::from("ab")),
        serde_json::Value::String(String::from("xyz")),
    ];
    let original = Schema::Bool(true);
    let metadata: Option<Box<Metadata>> = None;
    let r = ts.convert_enum_string(Name::Unknown, &original, &metadata, &values, Some(&validation));
    let ok = |n: u32| min_length.map_or(true, |m| m <= n) && max_length.map_or(true, |m| n <= m);
    let want = [ok(1), ok(2), ok(3)];
    let want_count = want.iter().filter(|b| **b).count();
    unsafe {
        if want_count == 0 {
            kani::assert(
                r.is_err() && META_CALLS == 0,
                "[C05/P3] an enum none of whose values satisfies the length constraints was accepted",
            );
        } else {
            kani::assert(r.is_ok() && META_CALLS == 1, "[C05/P3] a satisfiable constrained enum was rejected");
            kani::assert(
                KEPT[0] == want[0] && KEPT[1] == want[1] && KEPT[2] == want[2] && KEPT_COUNT == want_count,
                "[C05/P3] the generated enum does not keep exactly the values whose scalar-value length satisfies the bounds",
            );
            kani::assert(KEPT_IN_ORDER, "[C05/P3] surviving enum values are reordered or duplicated");
        }
    }
    kani::cover!(want_count == 0, "[must] unsatisfiable bounds reachable");
    kani::cover!(want[0] && !want[1], "[must] only the 1-character value survives");
    core::mem::forget(r);
    core::mem::forget(values);
    core::mem::forget(ts);
}

#[kani::proof]
#[kani::unwind(24)]
#[kani::stub(crate::MapType::new, crate::verif_common::stub_map_type_new)]
#[kani::stub(crate::util::sanitize, crate::verif_common::stub_sanitize)]
#[kani::stub(regress::Regex::new, crate::verif_common::stub_regex_new)]
#[kani::stub(crate::TypeSpace::convert_enum_string, stub_convert_enum_string)]
#[kani::stub(crate::TypeSpace::convert_string, stub_convert_string)]
fn canary_c05_enum_strings() {
    let mut ts = empty_type_space();
    let obj = SchemaObject {
        instance_type: Some(SingleOrVec::Single(Box::new(InstanceType::String))),
        enum_values: Some(vec![serde_json::Value::Null]),
        ..Default::default()
    };
    let original = Schema::Bool(true);
    let r = ts.convert_schema_object(Name::Unknown, &original, &obj);
    unsafe {
        kani::assert(ENUM_CALLS == 0, "[CANARY] an enumerated string schema never reaches convert_enum_string");
    }
    core::mem::forget(r);
    core::mem::forget(obj);
    core::mem::forget(ts);
}
