// @unit c10_routing property=C10 attach=typify-impl/src/convert.rs
// @h c10_route_integer tier=both replay=none
// @h c10_route_number tier=both replay=none
// @h c10_route_string tier=both replay=none
// @canary canary_c10_routing
//
// C10 -- ROUTING: the conversion driver hands a plain scalar schema to the selection
// function whose contract the other C10 units prove, with exactly the schema's own keywords.
// (This was the assumption "the unverified driver routes integer schemas to convert_integer"
// of the first design; it is now an obligation on `convert_schema_object`.)
//
//   R1  {type: integer, format?, number validation?} with no enum / const / subschemas / $ref /
//       x-rust-type  ==>  convert_integer is called exactly once, with the schema's own
//       metadata, number validation and format, and its result is the driver's result
//   R2  {type: number, ...}  ==>  convert_number likewise
//   R3  {type: string, format?, string validation?} with no enum  ==>  convert_string likewise
//
// The selection functions are replaced by argument-recording stubs (modular reasoning: the
// driver is checked against the callee's interface, the callee against its contract
// elsewhere). Keyword VALUES are symbolic (f64 bounds, presence flags); the format string is
// a literal or absent.

use super::*;
use crate::type_entry::{TypeEntry, TypeEntryDetails};
use crate::verif_common::{any_opt_finite, empty_type_space};
use schemars::schema::{NumberValidation, StringValidation};

static mut CALLS_INTEGER: u8 = 0;
static mut CALLS_NUMBER: u8 = 0;
static mut CALLS_STRING: u8 = 0;
static mut SEEN_MIN: Option<f64> = None;
static mut SEEN_MAX: Option<f64> = None;
static mut SEEN_VALIDATION_PRESENT: bool = false;
static mut SEEN_FORMAT_IS_UINT8: bool = false;
static mut SEEN_FORMAT_NONE: bool = false;
static mut SEEN_METADATA_ADDR: usize = 0;
static mut SEEN_MAX_LENGTH: Option<u32> = None;

fn record_format(format: &Option<String>) {
    unsafe {
        SEEN_FORMAT_NONE = format.is_none();
        SEEN_FORMAT_IS_UINT8 = format.as_ref().map_or(false, |f| f == "uint8");
    }
}

fn stub_convert_integer<'a>(
    _ts: &TypeSpace,
    metadata: &'a Option<Box<Metadata>>,
    validation: &Option<Box<NumberValidation>>,
    format: &Option<String>,
) -> Result<(TypeEntry, &'a Option<Box<Metadata>>)> {
    unsafe {
        CALLS_INTEGER += 1;
        SEEN_VALIDATION_PRESENT = validation.is_some();
        SEEN_MIN = validation.as_ref().and_then(|v| v.minimum);
        SEEN_MAX = validation.as_ref().and_then(|v| v.maximum);
        SEEN_METADATA_ADDR = metadata as *const _ as usize;
    }
    record_format(format);
    Ok((TypeEntryDetails::Integer(String::from("MARK")).into(), metadata))
}

fn stub_convert_number<'a>(
    _ts: &TypeSpace,
    metadata: &'a Option<Box<Metadata>>,
    validation: &Option<Box<NumberValidation>>,
    format: &Option<String>,
) -> Result<(TypeEntry, &'a Option<Box<Metadata>>)> {
    unsafe {
        CALLS_NUMBER += 1;
        SEEN_VALIDATION_PRESENT = validation.is_some();
        SEEN_MIN = validation.as_ref().and_then(|v| v.minimum);
        SEEN_MAX = validation.as_ref().and_then(|v| v.maximum);
        SEEN_METADATA_ADDR = metadata as *const _ as usize;
    }
    record_format(format);
    Ok((TypeEntryDetails::Float(String::from("MARK")).into(), metadata))
}

fn stub_convert_string<'a>(
    _ts: &mut TypeSpace,
    _type_name: Name,
    _original_schema: &'a Schema,
    metadata: &'a Option<Box<Metadata>>,
    format: &Option<String>,
    validation: Option<&StringValidation>,
) -> Result<(TypeEntry, &'a Option<Box<Metadata>>)> {
    unsafe {
        CALLS_STRING += 1;
        SEEN_VALIDATION_PRESENT = validation.is_some();
        SEEN_MAX_LENGTH = validation.and_then(|v| v.max_length);
        SEEN_METADATA_ADDR = metadata as *const _ as usize;
    }
    record_format(format);
    Ok((TypeEntryDetails::Integer(String::from("MARK")).into(), metadata))
}

macro_rules! stubs {
    (fn $name:ident() $body:block) => {
        #[kani::proof]
        #[kani::unwind(24)]
        #[kani::stub(crate::MapType::new, crate::verif_common::stub_map_type_new)]
        #[kani::stub(crate::util::sanitize, crate::verif_common::stub_sanitize)]
        #[kani::stub(regress::Regex::new, crate::verif_common::stub_regex_new)]
        #[kani::stub(crate::TypeSpace::convert_integer, stub_convert_integer)]
        #[kani::stub(crate::TypeSpace::convert_number, stub_convert_number)]
        #[kani::stub(crate::TypeSpace::convert_string, stub_convert_string)]
        fn $name() $body
    };
}

fn numeric_object(it: InstanceType, with_format: bool) -> (SchemaObject, Option<f64>, Option<f64>, bool) {
    let present: bool = kani::any();
    let minimum = any_opt_finite();
    let maximum = any_opt_finite();
    let number = if present {
        Some(Box::new(NumberValidation {
            multiple_of: None,
            maximum,
            exclusive_maximum: None,
            minimum,
            exclusive_minimum: None,
        }))
    } else {
        None
    };
    let obj = SchemaObject {
        instance_type: Some(SingleOrVec::Single(Box::new(it))),
        format: if with_format { Some(String::from("uint8")) } else { None },
        number,
        ..Default::default()
    };
    (obj, if present { minimum } else { None }, if present { maximum } else { None }, present)
}

fn check_numeric(it: InstanceType, integer: bool) {
    let mut ts = empty_type_space();
    let with_format: bool = kani::any();
    let (obj, minimum, maximum, present) = numeric_object(it, with_format);
    let original = Schema::Bool(true);
    let r = ts.convert_schema_object(Name::Unknown, &original, &obj);
    unsafe {
        let (mine, other1, other2) = if integer {
            (CALLS_INTEGER, CALLS_NUMBER, CALLS_STRING)
        } else {
            (CALLS_NUMBER, CALLS_INTEGER, CALLS_STRING)
        };
        kani::assert(
            mine == 1 && other1 == 0 && other2 == 0,
            "[C10/R1] a plain integer / number schema is not converted by exactly one call of its selection function",
        );
        kani::assert(
            SEEN_VALIDATION_PRESENT == present && SEEN_MIN == minimum && SEEN_MAX == maximum,
            "[C10/R1] the selection function is not given the schema's own numeric keywords",
        );
        kani::assert(
            if with_format { SEEN_FORMAT_IS_UINT8 } else { SEEN_FORMAT_NONE },
            "[C10/R1] the selection function is not given the schema's own format",
        );
        kani::assert(
            SEEN_METADATA_ADDR == &obj.metadata as *const _ as usize,
            "[C10/R1] the selection function is not given the schema's own metadata (where the default lives)",
        );
    }
    match &r {
        Ok((TypeEntry { details, .. }, _)) => {
            let marked = match details {
                TypeEntryDetails::Integer(n) | TypeEntryDetails::Float(n) => n == "MARK",
                _ => false,
            };
            kani::assert(marked, "[C10/R1] the driver does not return the selection function's result");
        }
        Err(_) => kani::assert(false, "[C10/R1] a plain integer / number schema was rejected by the driver"),
    }
    kani::cover!(present && with_format, "[must] validation and format present");
    core::mem::forget(r);
    core::mem::forget(obj);
    core::mem::forget(ts);
}

stubs! {
    fn c10_route_integer() {
        check_numeric(InstanceType::Integer, true)
    }
}

stubs! {
    fn c10_route_number() {
        check_numeric(InstanceType::Number, false)
    }
}

stubs! {
    fn c10_route_string() {
        let mut ts = empty_type_space();
        let with_format: bool = kani::any();
        let present: bool = kani::any();
        let max_length: Option<u32> = kani::any();
        let obj = SchemaObject {
            instance_type: Some(SingleOrVec::Single(Box::new(InstanceType::String))),
            format: if with_format { Some(String::from("uint8")) } else { None },
            string: if present {
                Some(Box::new(StringValidation { max_length, min_length: None, pattern: None }))
            } else {
                None
            },
            ..Default::default()
        };
        let original = Schema::Bool(true);
        let r = ts.convert_schema_object(Name::Unknown, &original, &obj);
        unsafe {
            kani::assert(
                CALLS_STRING == 1 && CALLS_INTEGER == 0 && CALLS_NUMBER == 0,
                "[C10/R3] a plain string schema is not converted by exactly one call of convert_string",
            );
            kani::assert(
                SEEN_VALIDATION_PRESENT == present && SEEN_MAX_LENGTH == if present { max_length } else { None },
                "[C10/R3] convert_string is not given the schema's own string validation",
            );
            kani::assert(
                if with_format { SEEN_FORMAT_IS_UINT8 } else { SEEN_FORMAT_NONE },
                "[C10/R3] convert_string is not given the schema's own format",
            );
        }
        kani::assert(r.is_ok(), "[C10/R3] a plain string schema was rejected by the driver");
        core::mem::forget(r);
        core::mem::forget(obj);
        core::mem::forget(ts);
    }
}

stubs! {
    fn canary_c10_routing() {
        let mut ts = empty_type_space();
        let obj = SchemaObject {
            instance_type: Some(SingleOrVec::Single(Box::new(InstanceType::Integer))),
            ..Default::default()
        };
        let original = Schema::Bool(true);
        let r = ts.convert_schema_object(Name::Unknown, &original, &obj);
        unsafe {
            kani::assert(CALLS_INTEGER == 0, "[CANARY] an integer schema never reaches convert_integer");
        }
        core::mem::forget(r);
        core::mem::forget(obj);
        core::mem::forget(ts);
    }
}
