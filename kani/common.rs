// @unit common attach=typify-impl/src/lib.rs
//
// Support code shared by every Kani unit. Attached to the crate root, so the
// private fields of `TypeSpace` and `TypeSpaceSettings` are visible.
//
// Nothing in here is a contract; every item is part of the *trusted harness
// base* and is listed as such in the evidence files.

#![allow(dead_code)]

use super::*;

/// Stub for `MapType::new` (which reaches `syn::parse_str`; that crashes the Kani compiler,
/// and building any `syn::Type` goes through proc_macro2's proc-macro detection -- atomics,
/// foreign calls -- at ~20 s of solver time per harness). The stub is active under
/// verification only; under native playback `#[kani::stub]` is a no-op and the real
/// `MapType::new` runs. The value is left uninitialised: no verified function reads
/// `settings.map_type`; a read would surface as a nondeterministic value in CBMC, and every
/// refutation is replayed natively (with the real value) before it is reported.
#[allow(invalid_value)]
pub(crate) fn stub_map_type_new(_s: &str) -> crate::MapType {
    unsafe { core::mem::MaybeUninit::<MapType>::uninit().assume_init() }
}

/// An empty `TypeSpace`, field by field equal to `TypeSpace::default()`.
/// Harnesses that call it carry `#[kani::stub(crate::MapType::new, crate::verif_common::stub_map_type_new)]`.
pub(crate) fn empty_type_space() -> TypeSpace {
    TypeSpace {
        next_id: 1,
        definitions: Default::default(),
        id_to_entry: Default::default(),
        type_to_id: Default::default(),
        name_to_id: Default::default(),
        ref_to_id: Default::default(),
        uses_chrono: false,
        uses_uuid: false,
        uses_serde_json: false,
        uses_regress: false,
        settings: TypeSpaceSettings {
            type_mod: None,
            extra_derives: Vec::new(),
            struct_builder: false,
            unknown_crates: UnknownPolicy::Generate,
            crates: Default::default(),
            map_type: MapType::new("::std::collections::HashMap"),
            patch: Default::default(),
            replace: Default::default(),
            convert: Vec::new(),
        },
        cache: Default::default(),
        defaults: Default::default(),
    }
}

/// Stub for `util::sanitize` (reaches `syn::parse_str`, which crashes the Kani compiler as
/// soon as it is statically reachable from a harness). Over-approximation: an arbitrary
/// string of at most two ASCII letters. Used only by harnesses whose postcondition does
/// not speak about the sanitised name; a harness in which the value matters cannot replay
/// natively (the real `sanitize` runs there), and its violation line then ends
/// `no-failing-input-found`.
pub(crate) fn stub_sanitize(_input: &str, _case: crate::util::Case) -> String {
    let mut s = String::new();
    let n: u8 = kani::any();
    if n & 1 != 0 {
        let c: u8 = kani::any();
        kani::assume(c.is_ascii_alphabetic());
        s.push(c as char);
    }
    if n & 2 != 0 {
        let c: u8 = kani::any();
        kani::assume(c.is_ascii_alphabetic());
        s.push(c as char);
    }
    s
}

/// Stub for `regress::Regex::new` (the regex compiler is far outside CBMC's reach and is
/// statically reachable from `convert_string` / `StringValidator::new`). Used only by
/// harnesses that pass no pattern; it fails the harness if it is ever reached.
pub(crate) fn stub_regex_new(_pattern: &str) -> std::result::Result<regress::Regex, regress::Error> {
    kani::assert(false, "[TOOL] regress::Regex::new reached: unsupported in this harness");
    Err(regress::Error {
        text: String::new(),
    })
}

/// A finite f64 (JSON numbers are finite; serde_json cannot produce NaN/inf).
pub(crate) fn any_finite() -> f64 {
    let x: f64 = kani::any();
    kani::assume(x.is_finite());
    x
}

pub(crate) fn any_opt_finite() -> Option<f64> {
    if kani::any() {
        Some(any_finite())
    } else {
        None
    }
}
