// @unit common attach=typify-impl/src/lib.rs
//
// Support code shared by every Kani unit. Attached to the crate root, so the
// private fields of `TypeSpace` and `TypeSpaceSettings` are visible.
//
// Nothing in here is a contract; every item is part of the *trusted harness
// base* and is listed as such in the evidence files.

#![allow(dead_code)]

use super::*;

/// Stub for `MapType::new` (reaches `syn::parse_str`, which crashes the Kani
/// compiler). Only used by harnesses that call `TypeSpace::default()`.
pub(crate) fn stub_map_type_new(_s: &str) -> crate::MapType {
    crate::MapType(syn::Type::Verbatim(proc_macro2::TokenStream::new()))
}

/// An empty `TypeSpace`, field by field equal to `TypeSpace::default()`
/// except `settings.map_type`, which is left uninitialised: building any
/// `syn::Type` goes through `proc_macro2`'s proc-macro detection (atomics,
/// foreign calls) and costs ~20 s of solver time per harness. No verified
/// function reads `map_type`; a read would surface as a nondeterministic
/// value in CBMC, and every refutation is replayed natively before it is
/// reported.
pub(crate) fn empty_type_space() -> TypeSpace {
    TypeSpace {
        next_id: 1,
        definitions: Default::default(),
        id_to_entry: Default::default(),
        type_to_id: Default::default(),
        name_to_id: Default::default(),
        ref_to_id: Default::default(),
        uses_chrono: false,
        uses_uuid: false,
        uses_serde_json: false,
        uses_regress: false,
        settings: TypeSpaceSettings {
            type_mod: None,
            extra_derives: Vec::new(),
            struct_builder: false,
            unknown_crates: UnknownPolicy::Generate,
            crates: Default::default(),
            #[allow(invalid_value)]
            map_type: unsafe { core::mem::MaybeUninit::<MapType>::uninit().assume_init() },
            patch: Default::default(),
            replace: Default::default(),
            convert: Vec::new(),
        },
        cache: Default::default(),
        defaults: Default::default(),
    }
}

/// A finite f64 (JSON numbers are finite; serde_json cannot produce NaN/inf).
pub(crate) fn any_finite() -> f64 {
    let x: f64 = kani::any();
    kani::assume(x.is_finite());
    x
}

pub(crate) fn any_opt_finite() -> Option<f64> {
    if kani::any() {
        Some(any_finite())
    } else {
        None
    }
}
