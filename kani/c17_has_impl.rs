// @unit c17_has_impl property=C17 attach=typify-impl/src/type_entry.rs
// @h c17_has_impl_boolean tier=both
// @h c17_has_impl_u8 tier=thorough
// @h c17_has_impl_i64 tier=both
// @h c17_has_impl_f32 tier=thorough
// @h c17_has_impl_f64 tier=both
// @h c17_has_impl_string tier=both
// @h c17_has_impl_unit tier=both
// @h c17_has_impl_json_value tier=both
// @h c17_has_impl_nonzero_u8 tier=thorough
// @h c17_has_impl_nonzero_u16 tier=thorough
// @h c17_has_impl_nonzero_u32 tier=thorough
// @h c17_has_impl_nonzero_u64 tier=both
// @h c17_has_impl_option tier=both
// @h c17_has_impl_vec tier=thorough
// @h c17_has_impl_map tier=both
// @h c17_has_impl_set tier=thorough
// @h c17_has_impl_native tier=both
// @h c17_has_impl_array_32 tier=native bounded=length-32-and-33
// @h c17_has_impl_array_33 tier=both bounded=length-32-and-33
// @h c17_has_impl_tuple_12 tier=native bounded=arity-12-and-13
// @h c17_has_impl_tuple_13 tier=both bounded=arity-12-and-13
// @h c17_has_impl_struct_default tier=both
// @h c17_has_impl_enum_000 tier=both
// @h c17_has_impl_enum_001 tier=both
// @h c17_has_impl_enum_010 tier=both
// @h c17_has_impl_enum_011 tier=thorough
// @h c17_has_impl_enum_100 tier=both
// @h c17_has_impl_enum_101 tier=thorough
// @h c17_has_impl_enum_110 tier=thorough
// @h c17_has_impl_enum_111 tier=thorough
// @canary canary_c17_has_impl
// @native-canary canary_c17_has_impl
//
// C17 -- "has_impl(X) being true implies the type implements X", for the built-in kinds
// whose Rust type is known without looking at emitted items
// (`TypeEntry::has_impl`, type_entry.rs).
//
//   P1  has_impl(kind, X)  ==>  the Rust type the kind denotes implements X, against this
//       literal table of std facts:
//         bool, iN/uN, f32/f64, String : FromStr, Display, Default
//         NonZeroU*                    : FromStr, Display   (NOT Default)
//         ()                           : Default
//         Option<T>, Vec<T>, HashMap<K,V>, HashSet<T> : Default   (for any T)
//         serde_json::Value            : FromStr, Display, Default
//   P2  a native type claims only impls it was registered with
//   P3  a struct / enum / newtype claims Default only if it carries a default value
//   P4  an enum claims FromStr only if its bespoke impl markers make output_enum emit one
//       (AllSimpleVariants or UntaggedFromStr), Display only if AllSimpleVariants or
//       UntaggedDisplay -- the markers are the other of the two cooperating sites (emission in
//       output_enum keys on exactly these); every subset of the three markers, one harness each
//
//   P5  a fixed-length array claims Default only up to length 32, a tuple only up to 12
//       members (std implements Default for [T; N], N <= 32, and tuples up to arity 12), and
//       only if the item type has Default; neither claims FromStr / Display. Length is
//       concrete around the limit (arrays 32, 33; tuples 12, 13);
//       the item type is a one-entry id_to_entry (bool). Only the lengths OVER the limit (33,
//       13) are decided: at or under it has_impl looks the item entry up and recurses, and
//       reading a TypeEntry back out of the B-tree makes CBMC unwind the whole recursive
//       match (no result in 600 s, 14 GB): array_32 / tuple_12 are executed natively instead
//       (`tier=native`, bounded stand-in, no symbolic value is drawn in these four harnesses).
//
// The kind is concrete per harness (a symbolic selector chooses between constructor
// calls), the trait is symbolic.

use super::*;
use crate::verif_common::empty_type_space;

fn any_impl() -> TypeSpaceImpl {
    let k: u8 = kani::any();
    match k {
        0 => TypeSpaceImpl::FromStr,
        1 => TypeSpaceImpl::Display,
        _ => TypeSpaceImpl::Default,
    }
}

macro_rules! stubs {
    ($(#[$m:meta])* fn $name:ident() $body:block) => {
        stubs! { @unwind 24, $(#[$m])* fn $name() $body }
    };
    (@unwind $n:expr, $(#[$m:meta])* fn $name:ident() $body:block) => {
        #[kani::proof]
        #[kani::unwind($n)]
        #[kani::stub(crate::MapType::new, crate::verif_common::stub_map_type_new)]
        #[kani::stub(crate::util::sanitize, crate::verif_common::stub_sanitize)]
        $(#[$m])*
        fn $name() $body
    };
}

/// conv: the Rust type implements FromStr and Display; dflt: it implements Default
fn check_builtin(entry: TypeEntry, conv: bool, dflt: bool) {
    let ts = empty_type_space();
    let x = any_impl();
    let has = entry.has_impl(&ts, x.clone());
    if has {
        let fact = match x {
            TypeSpaceImpl::FromStr | TypeSpaceImpl::Display => conv,
            TypeSpaceImpl::Default => dflt,
        };
        kani::assert(fact, "[C17/P1] has_impl claims a trait the built-in type does not implement");
    }
    kani::cover!(has, "[info] some impl is claimed");
    core::mem::forget(entry);
    core::mem::forget(ts);
}

macro_rules! builtin {
    ($name:ident, $entry:expr, $conv:expr, $dflt:expr) => {
        stubs! {
            fn $name() {
                check_builtin($entry, $conv, $dflt)
            }
        }
    };
}

builtin!(c17_has_impl_boolean, TypeEntryDetails::Boolean.into(), true, true);
builtin!(c17_has_impl_u8, TypeEntryDetails::Integer("u8".to_string()).into(), true, true);
builtin!(c17_has_impl_i64, TypeEntryDetails::Integer("i64".to_string()).into(), true, true);
builtin!(c17_has_impl_f32, TypeEntryDetails::Float("f32".to_string()).into(), true, true);
builtin!(c17_has_impl_f64, TypeEntryDetails::Float("f64".to_string()).into(), true, true);
builtin!(c17_has_impl_string, TypeEntryDetails::String.into(), true, true);
builtin!(c17_has_impl_unit, TypeEntryDetails::Unit.into(), false, true);
builtin!(c17_has_impl_json_value, TypeEntryDetails::JsonValue.into(), true, true);
builtin!(c17_has_impl_nonzero_u8, TypeEntryDetails::Integer("::std::num::NonZeroU8".to_string()).into(), true, false);
builtin!(c17_has_impl_nonzero_u16, TypeEntryDetails::Integer("::std::num::NonZeroU16".to_string()).into(), true, false);
builtin!(c17_has_impl_nonzero_u32, TypeEntryDetails::Integer("::std::num::NonZeroU32".to_string()).into(), true, false);
builtin!(c17_has_impl_nonzero_u64, TypeEntryDetails::Integer("::std::num::NonZeroU64".to_string()).into(), true, false);
builtin!(c17_has_impl_option, TypeEntryDetails::Option(TypeId(kani::any())).into(), false, true);
builtin!(c17_has_impl_vec, TypeEntryDetails::Vec(TypeId(kani::any())).into(), false, true);
builtin!(c17_has_impl_map, TypeEntryDetails::Map(TypeId(kani::any()), TypeId(kani::any())).into(), false, true);
builtin!(c17_has_impl_set, TypeEntryDetails::Set(TypeId(kani::any())).into(), false, true);

stubs! {
    fn c17_has_impl_native() {
        let ts = empty_type_space();
        let reg_from_str: bool = kani::any();
        let reg_display: bool = kani::any();
        let entry = match (reg_from_str, reg_display) {
            (true, true) => TypeEntry::new_native("::x::Y", &[TypeSpaceImpl::FromStr, TypeSpaceImpl::Display]),
            (true, false) => TypeEntry::new_native("::x::Y", &[TypeSpaceImpl::FromStr]),
            (false, true) => TypeEntry::new_native("::x::Y", &[TypeSpaceImpl::Display]),
            (false, false) => TypeEntry::new_native("::x::Y", &[]),
        };
        let x = any_impl();
        let has = entry.has_impl(&ts, x.clone());
        let registered = match x {
            TypeSpaceImpl::FromStr => reg_from_str,
            TypeSpaceImpl::Display => reg_display,
            TypeSpaceImpl::Default => false,
        };
        // the property's direction only: a claim implies the impl (a more conservative
        // has_impl would still satisfy C17)
        kani::assert(
            !has || registered,
            "[C17/P2] a native type claims an impl it was not registered with",
        );
        kani::cover!(has, "[must] a registered impl is claimed");
        core::mem::forget(entry);
        core::mem::forget(ts);
    }
}

/// No symbolic value is drawn here (length and trait are literals): when CBMC does not finish
/// on changed code, the harness still runs natively as a plain test (lib/check.py).
fn check_array(length: usize) {
    let mut ts = empty_type_space();
    ts.id_to_entry.insert(TypeId(3), TypeEntryDetails::Boolean.into());
    let entry: TypeEntry = TypeEntryDetails::Array(TypeId(3), length).into();
    let has_default = entry.has_impl(&ts, TypeSpaceImpl::Default);
    let has_from_str = entry.has_impl(&ts, TypeSpaceImpl::FromStr);
    let has_display = entry.has_impl(&ts, TypeSpaceImpl::Display);
    kani::assert(
        !has_default || length <= 32,
        "[C17/P5] a fixed-length array longer than 32 claims Default ([T; N]: Default needs N <= 32)",
    );
    kani::assert(
        !has_from_str && !has_display,
        "[C17/P5] a fixed-length array claims FromStr / Display",
    );
    core::mem::forget(entry);
    core::mem::forget(ts);
}

stubs! {
    fn c17_has_impl_array_32() {
        check_array(32)
    }
}

stubs! {
    fn c17_has_impl_array_33() {
        check_array(33)
    }
}

fn check_tuple(n: usize) {
    let mut ts = empty_type_space();
    ts.id_to_entry.insert(TypeId(3), TypeEntryDetails::Boolean.into());
    let mut ids = Vec::new();
    let mut i = 0;
    while i < n {
        ids.push(TypeId(3));
        i += 1;
    }
    let entry: TypeEntry = TypeEntryDetails::Tuple(ids).into();
    let has_default = entry.has_impl(&ts, TypeSpaceImpl::Default);
    let has_from_str = entry.has_impl(&ts, TypeSpaceImpl::FromStr);
    let has_display = entry.has_impl(&ts, TypeSpaceImpl::Display);
    kani::assert(
        !has_default || n <= 12,
        "[C17/P5] a tuple of more than 12 members claims Default (tuples: Default needs arity <= 12)",
    );
    kani::assert(
        !has_from_str && !has_display,
        "[C17/P5] a tuple claims FromStr / Display",
    );
    core::mem::forget(entry);
    core::mem::forget(ts);
}

stubs! {
    fn c17_has_impl_tuple_12() {
        check_tuple(12)
    }
}

stubs! {
    fn c17_has_impl_tuple_13() {
        check_tuple(13)
    }
}

stubs! {
    fn c17_has_impl_struct_default() {
        let ts = empty_type_space();
        let with_default: bool = kani::any();
        let default = if with_default {
            Some(WrappedValue::new(serde_json::Value::Null))
        } else {
            None
        };
        let entry: TypeEntry = TypeEntryDetails::Struct(TypeEntryStruct {
            name: "S".to_string(),
            rename: None,
            description: None,
            default,
            properties: Vec::new(),
            deny_unknown_fields: false,
            schema: SchemaWrapper(Schema::Bool(true)),
        })
        .into();
        let x = any_impl();
        let has = entry.has_impl(&ts, x.clone());
        match x {
            TypeSpaceImpl::Default => kani::assert(
                !has || with_default,
                "[C17/P3] a struct claims Default without carrying a default value",
            ),
            _ => kani::assert(!has, "[C17/P3] a struct claims FromStr/Display"),
        }
        kani::cover!(has, "[must] Default is claimed");
        core::mem::forget(entry);
        core::mem::forget(ts);
    }
}

fn check_enum(all_simple: bool, untagged_from_str: bool, untagged_display: bool) {
    let ts = empty_type_space();
    let mut bespoke = BTreeSet::new();
    if all_simple {
        bespoke.insert(TypeEntryEnumImpl::AllSimpleVariants);
    }
    if untagged_from_str {
        bespoke.insert(TypeEntryEnumImpl::UntaggedFromStr);
    }
    if untagged_display {
        bespoke.insert(TypeEntryEnumImpl::UntaggedDisplay);
    }
    let entry: TypeEntry = TypeEntryDetails::Enum(TypeEntryEnum {
        name: "E".to_string(),
        rename: None,
        description: None,
        default: None,
        tag_type: EnumTagType::Untagged,
        variants: Vec::new(),
        deny_unknown_fields: false,
        bespoke_impls: bespoke,
        schema: SchemaWrapper(Schema::Bool(true)),
    })
    .into();
    let x = any_impl();
    let has = entry.has_impl(&ts, x.clone());
    match x {
        TypeSpaceImpl::FromStr => kani::assert(
            !has || all_simple || untagged_from_str,
            "[C17/P4] an enum claims FromStr although no FromStr impl is emitted for it",
        ),
        TypeSpaceImpl::Display => kani::assert(
            !has || all_simple || untagged_display,
            "[C17/P4] an enum claims Display although no Display impl is emitted for it",
        ),
        TypeSpaceImpl::Default => kani::assert(
            !has,
            "[C17/P3] an enum without a default value claims Default",
        ),
    }
    kani::cover!(has || !(all_simple || untagged_from_str || untagged_display), "[must] a claim is reachable");
    core::mem::forget(entry);
    core::mem::forget(ts);
}

stubs! {
    fn c17_has_impl_enum_000() {
        check_enum(false, false, false)
    }
}

stubs! {
    fn c17_has_impl_enum_001() {
        check_enum(false, false, true)
    }
}

stubs! {
    fn c17_has_impl_enum_010() {
        check_enum(false, true, false)
    }
}

stubs! {
    fn c17_has_impl_enum_011() {
        check_enum(false, true, true)
    }
}

stubs! {
    fn c17_has_impl_enum_100() {
        check_enum(true, false, false)
    }
}

stubs! {
    fn c17_has_impl_enum_101() {
        check_enum(true, false, true)
    }
}

stubs! {
    fn c17_has_impl_enum_110() {
        check_enum(true, true, false)
    }
}

stubs! {
    fn c17_has_impl_enum_111() {
        check_enum(true, true, true)
    }
}

stubs! {
    fn canary_c17_has_impl() {
        let ts = empty_type_space();
        let entry: TypeEntry = TypeEntryDetails::Boolean.into();
        kani::assert(
            !entry.has_impl(&ts, TypeSpaceImpl::Display),
            "[CANARY] bool never claims Display",
        );
        core::mem::forget(entry);
        core::mem::forget(ts);
    }
}
