// @unit c05_struct_property property=C05 attach=typify-impl/src/structs.rs
// @h c05_property_required tier=off bounded=one-literal-property-name
// @h c05_property_not_required_string tier=off bounded=one-literal-property-name
// @h c05_property_not_required_option tier=off bounded=one-literal-property-name
// @canary canary_c05_struct_property
//
// C05 / C02 -- "required properties": a generated struct member is mandatory exactly when
// the schema requires it (`TypeSpace::struct_property`).
//
//   P4  the property name is in `required`        ==>  state Required, the member has the
//                                                      property's own type
//       not in `required`, type without intrinsic default (String), no schema default
//                                                 ==>  state Optional and the member's type is
//                                                      Option<property type> (never mandatory)
//       not in `required`, type Option<_>          ==>  state Optional, type unchanged (no
//                                                      Option<Option<_>>)
//   P5  the member's wire name: rename is None or exactly the JSON name (recase's contract)
//
// RESULT: NOT part of any check -- none of the harnesses (not even the `required` path) terminates
// within 15 minutes; cause not found. Kept with tier=off for the record.
//
// id_for_schema (the conversion driver) is replaced by a stub that returns a fixed,
// pre-registered identifier and no metadata; sanitize by an arbitrary string.

use super::*;
use crate::type_entry::{TypeEntry, TypeEntryDetails};
use crate::verif_common::empty_type_space;

static NO_METADATA: Option<Box<Metadata>> = None;

fn stub_id_for_schema<'a>(
    _ts: &mut TypeSpace,
    _type_name: Name,
    _schema: &'a Schema,
) -> Result<(TypeId, &'a Option<Box<Metadata>>)> {
    Ok((TypeId(1), &NO_METADATA))
}

macro_rules! stubs {
    (fn $name:ident() $body:block) => {
        #[kani::proof]
        #[kani::unwind(24)]
        #[kani::stub(crate::MapType::new, crate::verif_common::stub_map_type_new)]
        #[kani::stub(crate::util::sanitize, crate::verif_common::stub_sanitize)]
        #[kani::stub(regress::Regex::new, crate::verif_common::stub_regex_new)]
        #[kani::stub(crate::TypeSpace::id_for_schema, stub_id_for_schema)]
        fn $name() $body
    };
}

fn run(details: TypeEntryDetails, required: bool) -> (Result<StructProperty>, TypeSpace) {
    let mut ts = empty_type_space();
    let e: TypeEntry = details.into();
    ts.id_to_entry.insert(TypeId(1), e);
    ts.next_id = 2;
    let mut req: schemars::Set<String> = schemars::Set::new();
    if required {
        req.insert(String::from("my-prop"));
    }
    let schema = Schema::Bool(true);
    let r = ts.struct_property(None, &req, "my-prop", &schema);
    core::mem::forget(req);
    (r, ts)
}

fn check_rename(p: &StructProperty) {
    match &p.rename {
        StructPropertyRename::None => kani::assert(
            p.name == "my-prop",
            "[C05/P5] no rename although the member identifier differs from the JSON name",
        ),
        StructPropertyRename::Rename(r) => kani::assert(
            r == "my-prop",
            "[C05/P5] the member's rename is not exactly the JSON name",
        ),
        StructPropertyRename::Flatten => kani::assert(false, "[C05/P5] an ordinary member was flattened"),
    }
}

stubs! {
    fn c05_property_required() {
        let (r, ts) = run(TypeEntryDetails::String, true);
        match &r {
            Ok(p) => {
                kani::assert(
                    matches!(p.state, StructPropertyState::Required) && p.type_id == TypeId(1),
                    "[C05/P4] a required property is not a mandatory member of its own type",
                );
                check_rename(p);
            }
            Err(_) => kani::assert(false, "[C05/P4] a required property was rejected"),
        }
        core::mem::forget(r);
        core::mem::forget(ts);
    }
}

stubs! {
    fn c05_property_not_required_string() {
        let (r, ts) = run(TypeEntryDetails::String, false);
        match &r {
            Ok(p) => {
                kani::assert(
                    matches!(p.state, StructPropertyState::Optional),
                    "[C05/P4] a property that is not required became mandatory",
                );
                let is_option_of_it = match ts.id_to_entry.get(&p.type_id) {
                    Some(TypeEntry { details: TypeEntryDetails::Option(inner), .. }) => *inner == TypeId(1),
                    _ => false,
                };
                kani::assert(
                    is_option_of_it,
                    "[C05/P4] a non-required member without default is not typed Option<property type>",
                );
                check_rename(p);
            }
            Err(_) => kani::assert(false, "[C05/P4] a non-required property was rejected"),
        }
        core::mem::forget(r);
        core::mem::forget(ts);
    }
}

stubs! {
    fn c05_property_not_required_option() {
        let (r, ts) = run(TypeEntryDetails::Option(TypeId(9)), false);
        match &r {
            Ok(p) => kani::assert(
                matches!(p.state, StructPropertyState::Optional) && p.type_id == TypeId(1),
                "[C05/P4] a non-required Option member is not left as it is",
            ),
            Err(_) => kani::assert(false, "[C05/P4] a non-required property was rejected"),
        }
        core::mem::forget(r);
        core::mem::forget(ts);
    }
}

stubs! {
    fn canary_c05_struct_property() {
        let (r, ts) = run(TypeEntryDetails::String, true);
        if let Ok(p) = &r {
            kani::assert(
                !matches!(p.state, StructPropertyState::Required),
                "[CANARY] a required property is never mandatory",
            );
        }
        core::mem::forget(r);
        core::mem::forget(ts);
    }
}
