// @unit c17_ident property=C17 attach=typify-impl/src/type_entry.rs
// @needs te_support
// @h c17_ident_module_prefix_literals tier=native bounded=14-literal-container-shapes-over-3-named-types
// @native-canary canary_c17_ident
//
// C17 -- "every reported name and identifier resolves to a generated or built-in type when the
// output is placed in the configured module": `TypeEntry::type_ident`, the function behind
// `Type::ident()` / `Type::parameter_ident()` and behind every field, variant and item type of
// the emitted code.
//
//   I1  for a type space configured with a type module `m`, the identifier reported for a type
//       is the identifier reported WITHOUT a module in which every occurrence of a generated
//       (named) type `N` reads `m :: N` -- at every depth of Option / Box / Vec / Set / Map /
//       tuple / fixed array / parameterised native type -- and built-in types are untouched
//   I2  that identifier parses as a Rust type (syn::Type)
//
// type_ident builds proc_macro2 token streams and reaches syn::parse_str, which crashes
// kani-compiler; Verus has no model of either. BOUNDED STAND-IN (`tier=native`): the literal
// shapes below are executed natively against the real function, never counted as proved. The
// oracle of I1 is relational (module vs. no module), so it does not restate the templates.

use super::*;
use crate::type_entry::verif_te_support::{mk_enum, mk_newtype, mk_prop, mk_struct, mk_variant};
use crate::TypeSpace;

const MODULE: &str = "mymod";
// identifiers of the fixed part of the space
const S: u64 = 0; // struct  Sxq
const E: u64 = 1; // enum    Exq
const N: u64 = 2; // newtype Nxq
const B: u64 = 3; // bool
const ST: u64 = 4; // String
const I: u64 = 5; // u32
const J: u64 = 6; // serde_json::Value
const FIRST_FREE: u64 = 7;

fn base_space() -> TypeSpace {
    let mut ts = TypeSpace::default();
    let fixed: Vec<TypeEntry> = vec![
        mk_struct("Sxq", vec![mk_prop("a", TypeId(B), StructPropertyState::Required)], false),
        mk_enum("Exq", EnumTagType::External, vec![mk_variant("V", VariantDetails::Simple)]),
        mk_newtype("Nxq", TypeId(ST), TypeEntryNewtypeConstraints::None),
        TypeEntryDetails::Boolean.into(),
        TypeEntryDetails::String.into(),
        TypeEntryDetails::Integer("u32".to_string()).into(),
        TypeEntryDetails::JsonValue.into(),
    ];
    for (i, e) in fixed.into_iter().enumerate() {
        ts.id_to_entry.insert(TypeId(i as u64), e);
    }
    ts.next_id = FIRST_FREE;
    ts
}

fn push(ts: &mut TypeSpace, details: TypeEntryDetails) -> u64 {
    let id = ts.next_id;
    ts.id_to_entry.insert(TypeId(id), details.into());
    ts.next_id += 1;
    id
}

fn expect_prefixed(plain: &str) -> String {
    let mut out = plain.to_string();
    for name in ["Sxq", "Exq", "Nxq"] {
        out = out.replace(name, &format!("{} :: {}", MODULE, name));
    }
    out
}

fn check_ident(ts: &TypeSpace, id: u64, what: &'static str) {
    let entry = ts.id_to_entry.get(&TypeId(id)).unwrap();
    let plain = entry.type_ident(ts, &None).to_string();
    let with = entry.type_ident(ts, &Some(MODULE.to_string())).to_string();
    if with != expect_prefixed(&plain) {
        panic!(
            "[C17/I1] the identifier reported under a type module does not name every generated type inside that module: {}: {:?} vs {:?}",
            what, with, plain
        );
    }
    if syn::parse_str::<syn::Type>(&with).is_err() || syn::parse_str::<syn::Type>(&plain).is_err() {
        panic!("[C17/I2] a reported identifier does not parse as a Rust type: {}: {:?}", what, with);
    }
}

#[kani::proof]
fn c17_ident_module_prefix_literals() {
    let mut ts = base_space();
    let native = |params: Vec<TypeId>| {
        TypeEntryDetails::Native(TypeEntryNative {
            type_name: "::extcrate::Wrapper".to_string(),
            impls: vec![],
            parameters: params,
        })
    };
    let opt_s = push(&mut ts, TypeEntryDetails::Option(TypeId(S)));
    let box_e = push(&mut ts, TypeEntryDetails::Box(TypeId(E)));
    let vec_n = push(&mut ts, TypeEntryDetails::Vec(TypeId(N)));
    let set_s = push(&mut ts, TypeEntryDetails::Set(TypeId(S)));
    let map_s = push(&mut ts, TypeEntryDetails::Map(TypeId(ST), TypeId(S)));
    let map_k = push(&mut ts, TypeEntryDetails::Map(TypeId(N), TypeId(E)));
    let map_j = push(&mut ts, TypeEntryDetails::Map(TypeId(ST), TypeId(J)));
    let tup2 = push(&mut ts, TypeEntryDetails::Tuple(vec![TypeId(S), TypeId(B)]));
    let tup1 = push(&mut ts, TypeEntryDetails::Tuple(vec![TypeId(E)]));
    let tup3 = push(&mut ts, TypeEntryDetails::Tuple(vec![TypeId(I), TypeId(N), TypeId(S)]));
    let arr = push(&mut ts, TypeEntryDetails::Array(TypeId(S), 3));
    let nat = push(&mut ts, native(vec![TypeId(S), TypeId(I)]));
    let nat0 = push(&mut ts, native(vec![]));
    // nesting: Option<Vec<(Exq,)>>, Box<[Map<String, Sxq>; 2]>, Wrapper<Option<Sxq>,>
    let vec_tup1 = push(&mut ts, TypeEntryDetails::Vec(TypeId(tup1)));
    let opt_vec = push(&mut ts, TypeEntryDetails::Option(TypeId(vec_tup1)));
    let arr_map = push(&mut ts, TypeEntryDetails::Array(TypeId(map_s), 2));
    let box_arr = push(&mut ts, TypeEntryDetails::Box(TypeId(arr_map)));
    let nat_opt = push(&mut ts, native(vec![TypeId(opt_s)]));
    let opt_opt = push(&mut ts, TypeEntryDetails::Option(TypeId(opt_s)));

    for (id, what) in [
        (S, "named struct"),
        (E, "named enum"),
        (N, "named newtype"),
        (B, "bool"),
        (ST, "String"),
        (I, "u32"),
        (J, "serde_json::Value"),
        (opt_s, "Option of a struct"),
        (box_e, "Box of an enum"),
        (vec_n, "Vec of a newtype"),
        (set_s, "set of a struct"),
        (map_s, "map with struct values"),
        (map_k, "map with newtype keys and enum values"),
        (map_j, "map of JSON values"),
        (tup2, "tuple (struct, bool)"),
        (tup1, "tuple of one enum"),
        (tup3, "tuple (u32, newtype, struct)"),
        (arr, "fixed array of a struct"),
        (nat, "native type with a struct parameter"),
        (nat0, "native type without parameters"),
        (opt_vec, "Option<Vec<(enum,)>>"),
        (box_arr, "Box<[map of struct; 2]>"),
        (nat_opt, "native type with an Option<struct> parameter"),
        (opt_opt, "Option of Option of a struct"),
    ] {
        check_ident(&ts, id, what);
    }
}

#[kani::proof]
fn canary_c17_ident() {
    let ts = base_space();
    let entry = ts.id_to_entry.get(&TypeId(S)).unwrap();
    let with = entry.type_ident(&ts, &Some(MODULE.to_string())).to_string();
    kani::assert(with == "Sxq", "[CANARY] a type module never shows in an identifier");
}
