// @unit c15_settings property=C15 attach=verif-c15/src/lib.rs
// @h c15_settings_crate_plain tier=native
// @h c15_settings_with_crate_args_plain tier=both replay=none bounded=enumerated-literal-arguments
// @h c15_settings_with_crate_args_renamed tier=both replay=none bounded=enumerated-literal-arguments
// @h c15_settings_crate_renamed tier=native bounded=enumerated-literal-arguments
// @h c15_settings_flags tier=both bounded=enumerated-literal-arguments
// @canary canary_c15_settings
// @native-canary canary_c15_settings
//
// C15 -- "every option of each front-end ... reaches the generator with the meaning
// documented for it": the CLI's mapping of parsed arguments onto TypeSpaceSettings, on the
// settings-building statements of cargo-typify's `convert()` extracted mechanically
// (lib/c15_prepare.py, E4) and wrapped as `verif_slice_build_settings`.
//
//   P5  `--crate orig@*`        => exactly one configured crate, `orig`, Any, no rename
//       `--crate new=orig@!`    => exactly one configured crate, `orig` (the crate the
//                                  schema's x-rust-type names), Never, renamed to `new`
//   P6  struct builder == !--no-builder; every --additional-derive reaches the settings in
//       order; --unknown-crates generate|allow|deny => that policy; absent => Generate
//
// P5 through with_crate's own effect (reading the `CrateSpec` back out of settings.crates) is not
// proved: `crates.get(..)` then a match on the entry's fields does not terminate in CBMC within
// 20 minutes (the same was seen for C13's configured-crate cells). Its two literal harnesses are
// executed natively against the real code instead (`tier=native`, bounded stand-in).
//
// The settings are read through kani/c15_access.rs (pub accessors attached to typify-impl in
// the scratch copy). All argument strings are literals (enumerated), flags are symbolic.

use super::*;
use typify_impl::verif_c15_access as acc;

fn base_args() -> CliArgs {
    CliArgs {
        input: PathBuf::from("i"),
        builder: false,
        no_builder: false,
        additional_derives: Vec::new(),
        output: None,
        crates: Vec::new(),
        map_type: None,
        unknown_crates: None,
    }
}

macro_rules! stubs {
    (fn $name:ident() $body:block) => {
        #[kani::proof]
        #[kani::unwind(16)]
        #[kani::stub(typify_impl::MapType::new, typify_impl::verif_c15_access::stub_map_type_new)]
        fn $name() $body
    };
}

stubs! {
    fn c15_settings_crate_plain() {
        let mut args = base_args();
        args.crates.push(CrateSpec {
            name: String::from("orig"),
            version: CrateVers::Any,
            rename: None,
        });
        let s = verif_slice_build_settings(&args);
        kani::assert(
            acc::crate_count(&s) == 1 && acc::crate_version_kind(&s, "orig") == 1,
            "[C15/P5] --crate orig@* does not configure exactly the crate `orig` with version Any",
        );
        kani::assert(
            acc::crate_rename(&s, "orig").is_none(),
            "[C15/P5] --crate orig@* invents a rename",
        );
        core::mem::forget(s);
        core::mem::forget(args);
    }
}

stubs! {
    fn c15_settings_crate_renamed() {
        let mut args = base_args();
        args.crates.push(CrateSpec {
            name: String::from("orig"),
            version: CrateVers::Never,
            rename: Some(String::from("new")),
        });
        let s = verif_slice_build_settings(&args);
        kani::assert(
            acc::crate_count(&s) == 1 && acc::crate_version_kind(&s, "orig") == 2,
            "[C15/P5] --crate new=orig@! does not configure the crate `orig` (the one schemas name)",
        );
        kani::assert(
            acc::crate_rename(&s, "orig").map(|r| r.as_str()) == Some("new"),
            "[C15/P5] --crate new=orig@! does not record `new` as the rename of `orig`",
        );
        kani::assert(
            acc::crate_version_kind(&s, "new") == 0,
            "[C15/P5] the rename was configured as if it were the crate",
        );
        core::mem::forget(s);
        core::mem::forget(args);
    }
}

// ---- P5 through the CALLEE'S INTERFACE: with_crate is replaced by a stub that records its
// arguments (modular reasoning: the slice is checked against with_crate's signature --
// `crate_name` is the crate being configured, `rename` its new name -- not its body, whose
// B-tree read-back does not terminate in CBMC).
static mut REC_CALLS: u8 = 0;
static mut REC_NAME_IS_ORIG: bool = false;
static mut REC_RENAME_IS_NEW: bool = false;
static mut REC_RENAME_NONE: bool = false;
static mut REC_KIND: u8 = 0;

fn stub_with_crate<'a, S1: ToString>(
    s: &'a mut TypeSpaceSettings,
    crate_name: S1,
    version: CrateVers,
    rename: Option<&String>,
) -> &'a mut TypeSpaceSettings {
    let name = crate_name.to_string();
    unsafe {
        REC_CALLS += 1;
        REC_NAME_IS_ORIG = name == "orig";
        REC_RENAME_IS_NEW = rename.map_or(false, |r| r == "new");
        REC_RENAME_NONE = rename.is_none();
        REC_KIND = match version {
            CrateVers::Any => 1,
            CrateVers::Never => 2,
            CrateVers::Version(_) => 3,
        };
    }
    core::mem::forget(name);
    s
}

fn check_with_crate_args(rename: Option<&str>, never: bool) {
    let mut args = base_args();
    args.crates.push(CrateSpec {
        name: String::from("orig"),
        version: if never { CrateVers::Never } else { CrateVers::Any },
        rename: rename.map(String::from),
    });
    let s = verif_slice_build_settings(&args);
    unsafe {
        kani::assert(REC_CALLS == 1, "[C15/P5] --crate does not configure exactly one crate");
        kani::assert(
            REC_NAME_IS_ORIG,
            "[C15/P5] with_crate is not given the crate the specifier names (the one schemas refer to) as crate_name",
        );
        kani::assert(
            REC_KIND == if never { 2 } else { 1 },
            "[C15/P5] with_crate is not given the specifier's version",
        );
        if rename.is_some() {
            kani::assert(
                REC_RENAME_IS_NEW,
                "[C15/P5] with_crate is not given the specifier's rename as the crate's new name",
            );
        } else {
            kani::assert(REC_RENAME_NONE, "[C15/P5] with_crate is given a rename nobody asked for");
        }
    }
    core::mem::forget(s);
    core::mem::forget(args);
}

#[kani::proof]
#[kani::unwind(16)]
#[kani::stub(typify_impl::MapType::new, typify_impl::verif_c15_access::stub_map_type_new)]
#[kani::stub(typify_impl::TypeSpaceSettings::with_crate, stub_with_crate)]
fn c15_settings_with_crate_args_plain() {
    check_with_crate_args(None, false)
}

#[kani::proof]
#[kani::unwind(16)]
#[kani::stub(typify_impl::MapType::new, typify_impl::verif_c15_access::stub_map_type_new)]
#[kani::stub(typify_impl::TypeSpaceSettings::with_crate, stub_with_crate)]
fn c15_settings_with_crate_args_renamed() {
    check_with_crate_args(Some("new"), true)
}

stubs! {
    fn c15_settings_flags() {
        let mut args = base_args();
        args.no_builder = kani::any();
        args.builder = kani::any();
        args.additional_derives.push(String::from("A"));
        args.additional_derives.push(String::from("B"));
        let pol: u8 = kani::any();
        args.unknown_crates = match pol {
            0 => None,
            1 => Some(String::from("generate")),
            2 => Some(String::from("allow")),
            _ => Some(String::from("deny")),
        };
        let s = verif_slice_build_settings(&args);
        kani::assert(
            acc::struct_builder(&s) == !args.no_builder,
            "[C15/P6] the builder interface is not enabled exactly when --no-builder is absent",
        );
        let d = acc::extra_derives(&s);
        kani::assert(
            d.len() == 2 && d[0] == "A" && d[1] == "B",
            "[C15/P6] --additional-derive values do not reach the settings unchanged",
        );
        let want = match pol {
            0 | 1 => 0,
            2 => 1,
            _ => 2,
        };
        kani::assert(
            acc::unknown_policy(&s) == want,
            "[C15/P6] --unknown-crates does not select the policy it names",
        );
        kani::assert(acc::crate_count(&s) == 0, "[C15/P5] a crate configured without --crate");
        kani::cover!(pol == 2, "[must] allow policy reachable");
        core::mem::forget(s);
        core::mem::forget(args);
    }
}

stubs! {
    fn canary_c15_settings() {
        let mut args = base_args();
        args.no_builder = true;
        let s = verif_slice_build_settings(&args);
        kani::assert(acc::struct_builder(&s), "[CANARY] --no-builder never disables the builder");
        core::mem::forget(s);
        core::mem::forget(args);
    }
}
