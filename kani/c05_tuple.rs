// @unit c05_tuple property=C05 attach=typify-impl/src/type_entry.rs
// @h c05_tuple_ident_arity_literals tier=native bounded=tuples-of-0-to-4-members
// @native-canary canary_c05_tuple
//
// C05 -- "fixed tuple length": the Rust type reported (and emitted, for every field, variant and
// item of that type) for a tuple entry of n members is a Rust tuple type of exactly n elements
// -- in particular `(T,)`, not `(T)` (which is T itself: the bare item would be accepted and the
// one-element array rejected), for n == 1.
//
//   I3  type_ident(Tuple(ids)) parses as syn::Type::Tuple with ids.len() elements, with and
//       without a type module
//
// type_ident builds proc_macro2 token streams and reaches syn::parse_str, which crashes
// kani-compiler; Verus has no model of either. BOUNDED STAND-IN (`tier=native`): tuples of 0 to
// 4 members executed natively against the real function, never counted as proved.

use super::*;
use crate::TypeSpace;

const MODULE: &str = "mymod";

fn base_space() -> TypeSpace {
    let mut ts = TypeSpace::default();
    let fixed: Vec<TypeEntry> = vec![
        TypeEntryDetails::Boolean.into(),
        TypeEntryDetails::Integer("u32".to_string()).into(),
        TypeEntryDetails::String.into(),
        TypeEntryDetails::JsonValue.into(),
    ];
    for (i, e) in fixed.into_iter().enumerate() {
        ts.id_to_entry.insert(TypeId(i as u64), e);
    }
    ts.next_id = 4;
    ts
}

fn push(ts: &mut TypeSpace, details: TypeEntryDetails) -> u64 {
    let id = ts.next_id;
    ts.id_to_entry.insert(TypeId(id), details.into());
    ts.next_id += 1;
    id
}

fn tuple_arity(ts: &TypeSpace, id: u64, type_mod: &Option<String>) -> Option<usize> {
    let entry = ts.id_to_entry.get(&TypeId(id)).unwrap();
    let text = entry.type_ident(ts, type_mod).to_string();
    match syn::parse_str::<syn::Type>(&text) {
        Ok(syn::Type::Tuple(t)) => Some(t.elems.len()),
        _ => None,
    }
}

#[kani::proof]
fn c05_tuple_ident_arity_literals() {
    let mut ts = base_space();
    let members = [TypeId(0), TypeId(1), TypeId(2), TypeId(3)];
    for n in 0..=4usize {
        let id = push(&mut ts, TypeEntryDetails::Tuple(members[..n].to_vec()));
        for type_mod in [None, Some(MODULE.to_string())] {
            if tuple_arity(&ts, id, &type_mod) != Some(n) {
                panic!("[C05/I3] the Rust type of a tuple entry of {} members is not a tuple type of {} elements", n, n);
            }
        }
    }
}

#[kani::proof]
fn canary_c05_tuple() {
    let mut ts = base_space();
    let id = push(&mut ts, TypeEntryDetails::Tuple(vec![TypeId(0), TypeId(1)]));
    kani::assert(tuple_arity(&ts, id, &None) != Some(2), "[CANARY] a pair is never rendered as a 2-tuple");
}
