// @unit c08_recase property=C08 attach=typify-impl/src/util.rs
// @h c08_recase_snake tier=both bounded=input-of-at-most-2-unicode-scalar-values
// @h c08_recase_pascal tier=both bounded=input-of-at-most-2-unicode-scalar-values
// @canary canary_c08_recase
//
// C08 -- wire-name fidelity at the one place where the decision is taken for struct
// members and renamed types (`util::recase`).
//
// "Identifiers ... bound by serde attributes to exactly the original JSON name": whatever
// identifier `sanitize` produces,
//
//   P1  rename == None       <==>  identifier == input   (no attribute is needed only when
//                                  the identifier already IS the JSON name)
//   P2  rename == Some(r)     ==>  r == input            (the attribute carries exactly the
//                                  original name)
//
// `sanitize` is replaced by an arbitrary string (stub_sanitize): the contract holds for
// every possible sanitiser, so identifier validity is NOT decided here (sanitize reaches
// syn::parse_str and cannot be compiled by Kani at all).

use super::*;

fn any_input<'a>(buf: &'a mut [u8; 8]) -> &'a str {
    let n: u8 = kani::any();
    kani::assume(n <= 2);
    let mut len = 0;
    if n >= 1 {
        let c: char = kani::any();
        len += c.encode_utf8(&mut buf[len..]).len();
    }
    if n >= 2 {
        let c: char = kani::any();
        len += c.encode_utf8(&mut buf[len..]).len();
    }
    unsafe { core::str::from_utf8_unchecked(&buf[..len]) }
}

fn check_recase(case: Case) {
    let mut buf = [0u8; 8];
    let input = any_input(&mut buf);
    let (new, rename) = recase(input, case);
    match &rename {
        None => kani::assert(
            new == input,
            "[C08/P1] no rename emitted although the identifier differs from the JSON name",
        ),
        Some(r) => {
            kani::assert(
                r == input,
                "[C08/P2] rename attribute is not exactly the original JSON name",
            );
            kani::assert(
                new != input,
                "[C08/P1] rename emitted although the identifier equals the JSON name",
            );
        }
    }
    kani::cover!(rename.is_none(), "[must] identity case reachable");
    kani::cover!(rename.is_some(), "[must] rename case reachable");
    core::mem::forget(new);
    core::mem::forget(rename);
}

#[kani::proof]
#[kani::unwind(12)]
#[kani::stub(crate::util::sanitize, crate::verif_common::stub_sanitize)]
fn c08_recase_snake() {
    check_recase(Case::Snake)
}

#[kani::proof]
#[kani::unwind(12)]
#[kani::stub(crate::util::sanitize, crate::verif_common::stub_sanitize)]
fn c08_recase_pascal() {
    check_recase(Case::Pascal)
}

#[kani::proof]
#[kani::unwind(12)]
#[kani::stub(crate::util::sanitize, crate::verif_common::stub_sanitize)]
fn canary_c08_recase() {
    let (new, rename) = recase("a-b", Case::Snake);
    kani::assert(rename.is_none(), "[CANARY] recase never emits a rename");
    core::mem::forget(new);
    core::mem::forget(rename);
}
