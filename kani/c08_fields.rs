// @unit c08_fields property=C08 attach=typify-impl/src/structs.rs
// @h c08_field_names_distinct tier=native bounded=3-literal-objects
// @native-canary canary_c08_fields
//
// C08 -- "identifiers ... distinct within their scope": the member identifiers of one generated
// struct (struct_members -> struct_property -> recase).
//
//   P5  adding the object either fails with an error, or the member identifiers of the struct
//       are pairwise distinct and each member whose identifier differs from its JSON name
//       carries exactly that JSON name as its rename
//
// (On the pinned commit "a-b" / "a_b" yielded two fields `a_b`: found by this harness, repaired
// in /repo by fd98916, see known_findings.txt.)
//
// BOUNDED STAND-IN (`tier=native`): literal objects whose property names collide after
// sanitising ("a-b" / "a_b", "fooBar" / "foo_bar", "x" / "X" which do not collide in snake case).

use super::*;
use crate::type_entry::{StructPropertyRename, TypeEntryDetails};

fn members(props: &[&str]) -> Option<Vec<(String, Option<String>)>> {
    let mut properties = serde_json::Map::new();
    for p in props {
        properties.insert(p.to_string(), serde_json::json!({ "type": "string" }));
    }
    let schema: Schema = serde_json::from_value(serde_json::json!({
        "type": "object", "properties": properties, "required": props
    }))
    .unwrap();
    let mut ts = TypeSpace::default();
    // "generation either fails with an error or ..."
    let id = ts.add_type_with_name(&schema, Some("S".to_string())).ok()?;
    Some(match &ts.id_to_entry.get(&id).unwrap().details {
        TypeEntryDetails::Struct(s) => s
            .properties
            .iter()
            .map(|p| {
                (
                    p.name.clone(),
                    match &p.rename {
                        StructPropertyRename::Rename(r) => Some(r.clone()),
                        _ => None,
                    },
                )
            })
            .collect(),
        _ => panic!("[TOOL] the literal object did not become a struct"),
    })
}

fn check(props: &[&str]) {
    // "generation either fails with an error or ...": an error is always within the property
    let Some(ms) = members(props) else {
        return;
    };
    for i in 0..ms.len() {
        for j in (i + 1)..ms.len() {
            if ms[i].0 == ms[j].0 {
                panic!("[C08/P5] two members of one struct share the identifier {:?} (JSON names {:?})", ms[i].0, props);
            }
        }
    }
    let mut wire: Vec<String> = ms.iter().map(|(n, r)| r.clone().unwrap_or_else(|| n.clone())).collect();
    wire.sort();
    let mut want: Vec<String> = props.iter().map(|s| s.to_string()).collect();
    want.sort();
    if wire != want {
        panic!("[C08/P5] the members' wire names {:?} are not the JSON names {:?}", wire, want);
    }
}

#[kani::proof]
fn c08_field_names_distinct() {
    check(&["x", "X1", "plain"]);
    check(&["a-b", "a_b"]);
    check(&["fooBar", "foo_bar"]);
}

#[kani::proof]
fn canary_c08_fields() {
    let ms = members(&["x", "y"]).unwrap();
    kani::assert(ms[0].0 == ms[1].0, "[CANARY] distinct names always collide");
}
