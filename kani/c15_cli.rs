// @unit c15_cli property=C15 attach=verif-c15/src/lib.rs
// @h c15_spec_name_a tier=both bounded=one-literal-specifier
// @h c15_spec_name_a1 tier=both bounded=one-literal-specifier
// @h c15_spec_name_oxnet2 tier=both bounded=one-literal-specifier
// @h c15_spec_name_hyphen tier=both bounded=one-literal-specifier
// @h c15_spec_name_underscore tier=both bounded=one-literal-specifier
// @h c15_spec_name_upper tier=both bounded=one-literal-specifier
// @h c15_spec_rename_plain tier=both bounded=one-literal-specifier
// @h c15_spec_rename_digit tier=both bounded=one-literal-specifier
// @h c15_spec_rename_hyphen tier=both bounded=one-literal-specifier
// @h c15_output_path_stdout tier=both bounded=one-literal-path
// @h c15_output_path_given tier=both bounded=one-literal-path
// @h c15_output_path_default tier=native bounded=one-literal-path
// @h c15_output_path_default_dir tier=native bounded=one-literal-path
// @h c15_spec_versions tier=both bounded=enumerated-literal-specifiers
// @h c15_use_builder tier=both
// @canary canary_c15_cli
// @native-canary canary_c15_cli
//
// C15 -- the CLI argument layer of cargo-typify, on text extracted mechanically from
// cargo-typify/src/lib.rs (lib/c15_prepare.py; drop list E1-E3 there).
//
// "The CLI ... accepts every valid crate@version (and rename=crate@version) specifier,
// writes to the input path with extension .rs by default, to stdout for `-`":
//
//   P1  for crate names over [A-Za-z][A-Za-z0-9_-]* (ENUMERATED literals covering letters,
//       digits, `-`, `_`, upper case): "<name>@*" parses, with that name, version Any and
//       no rename; "<rename>=<name>@*" parses with that rename
//   P2  "<name>@!" => Never; "<name>@<semver>" => that Version; a specifier without `@`,
//       or with an unparsable version, is rejected
//   P3  output_path: `-o -` => None (stdout); `-o p` => p. The default -- input with
//       extension rs -- is not proved (PathBuf::set_extension does not terminate in CBMC
//       within 20 minutes even on a literal path): the two literal instances are executed
//       natively against the real code instead (`tier=native`, bounded stand-in).
//   P4  use_builder == !no_builder
//
// Everything is a literal here (a concrete instance is the symbolic execution of one path):
// labelled bounded / enumerated, never counted as proved.

use super::*;
use std::str::FromStr;

fn check_spec(bytes: &[u8], name: &[u8], rename: Option<&[u8]>) {
    let s = unsafe { core::str::from_utf8_unchecked(bytes) };
    let r = CrateSpec::from_str(s);
    match &r {
        Ok(spec) => {
            kani::assert(
                spec.name.as_bytes() == name,
                "[C15/P1] parsed crate name differs from the specifier's",
            );
            kani::assert(
                matches!(spec.version, CrateVers::Any),
                "[C15/P1] version `*` did not parse as Any",
            );
            match (rename, &spec.rename) {
                (None, None) => {}
                (Some(want), Some(got)) => kani::assert(
                    got.as_bytes() == want,
                    "[C15/P1] parsed rename differs from the specifier's",
                ),
                _ => kani::assert(false, "[C15/P1] rename invented or dropped"),
            }
        }
        Err(_) => kani::assert(false, "[C15/P1] a valid crate@version specifier was rejected"),
    }
    kani::cover!(r.is_ok(), "[must] a specifier is accepted");
    core::mem::forget(r);
}

/// Symbolic crate-name characters do not terminate: `char::is_alphanumeric` on a symbolic
/// char walks the Unicode tables (CBMC ran out of memory even for a 1-character name), and a
/// symbolic selector over ten literal calls does not finish in 20 minutes either. One
/// harness per ENUMERATED literal, chosen to cover the grammar's classes (letters, digits in
/// every position but the first, `-`, `_`, upper case, renames).
macro_rules! spec {
    ($name:ident, $s:expr, $crate_name:expr, $rename:expr) => {
        #[kani::proof]
        #[kani::unwind(16)]
        fn $name() {
            check_spec($s, $crate_name, $rename)
        }
    };
}

spec!(c15_spec_name_a, b"a@*", b"a", None);
spec!(c15_spec_name_a1, b"a1@*", b"a1", None);
spec!(c15_spec_name_oxnet2, b"oxnet2@*", b"oxnet2", None);
spec!(c15_spec_name_hyphen, b"a-b@*", b"a-b", None);
spec!(c15_spec_name_underscore, b"a_b9@*", b"a_b9", None);
spec!(c15_spec_name_upper, b"Uuid@*", b"Uuid", None);
spec!(c15_spec_rename_plain, b"b=a@*", b"a", Some(b"b"));
spec!(c15_spec_rename_digit, b"new2=orig@*", b"orig", Some(b"new2"));
spec!(c15_spec_rename_hyphen, b"my-x=x_y@*", b"x_y", Some(b"my-x"));

fn expect_version(s: &str, want: u8) {
    // want: 0 = Err, 1 = Any, 2 = Never, 3 = Version
    let r = CrateSpec::from_str(s);
    let got = match &r {
        Err(_) => 0,
        Ok(spec) => match spec.version {
            CrateVers::Any => 1,
            CrateVers::Never => 2,
            CrateVers::Version(_) => 3,
        },
    };
    kani::assert(
        got == want,
        "[C15/P2] crate specifier version accepted / rejected / classified wrongly",
    );
    core::mem::forget(r);
}

#[kani::proof]
#[kani::unwind(20)]
fn c15_spec_versions() {
    // a symbolic choice between calls on literal specifiers
    let k: u8 = kani::any();
    match k {
        0 => expect_version("a@*", 1),
        1 => expect_version("a@!", 2),
        2 => expect_version("a@1.2.3", 3),
        3 => expect_version("a@", 0),
        4 => expect_version("a", 0),
        5 => expect_version("a@x", 0),
        6 => expect_version("b=a@1.0.0", 3),
        _ => expect_version("a@**", 0),
    }
    kani::cover!(k == 2, "[must] semver instance reachable");
}

fn args(input: &str, output: Option<&str>, no_builder: bool, builder: bool) -> CliArgs {
    CliArgs {
        input: PathBuf::from(input),
        builder,
        no_builder,
        additional_derives: Vec::new(),
        output: output.map(PathBuf::from),
        crates: Vec::new(),
        map_type: None,
        unknown_crates: None,
    }
}

fn check_output_path(a: CliArgs, want: Option<&str>) {
    let got = a.output_path();
    match (&got, want) {
        (None, None) => {}
        (Some(p), Some(w)) => kani::assert(
            p.as_os_str().as_encoded_bytes() == w.as_bytes(),
            "[C15/P3] output path is not the given path / the input with extension rs",
        ),
        _ => kani::assert(false, "[C15/P3] stdout (`-`) and file output confused"),
    }
    core::mem::forget(got);
    core::mem::forget(a);
}

macro_rules! outp {
    ($name:ident, $input:expr, $output:expr, $want:expr) => {
        #[kani::proof]
        #[kani::unwind(20)]
        fn $name() {
            check_output_path(args($input, $output, false, false), $want)
        }
    };
}

outp!(c15_output_path_stdout, "in.json", Some("-"), None);
outp!(c15_output_path_given, "in.json", Some("o.rs"), Some("o.rs"));
outp!(c15_output_path_default, "in.json", None, Some("in.rs"));
outp!(c15_output_path_default_dir, "d/in.json", None, Some("d/in.rs"));

#[kani::proof]
fn c15_use_builder() {
    let no_builder: bool = kani::any();
    let builder: bool = kani::any();
    let a = args("i", None, no_builder, builder);
    kani::assert(
        a.use_builder() == !no_builder,
        "[C15/P4] builder interface not selected exactly when --no-builder is absent",
    );
    core::mem::forget(a);
}

#[kani::proof]
#[kani::unwind(12)]
fn canary_c15_cli() {
    let r = CrateSpec::from_str("a@*");
    kani::assert(r.is_err(), "[CANARY] `a@*` is never accepted");
    core::mem::forget(r);
}
