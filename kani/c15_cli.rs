// @unit c15_cli property=C15 attach=verif-c15/src/lib.rs
// @h c15_spec_names tier=both bounded=enumerated-literal-crate-names
// @h c15_spec_renames tier=both bounded=enumerated-literal-crate-names
// @h c15_spec_versions tier=both bounded=enumerated-literal-specifiers
// @h c15_output_path tier=both bounded=enumerated-literal-paths
// @h c15_use_builder tier=both
// @canary canary_c15_cli
//
// C15 -- the CLI argument layer of cargo-typify, on text extracted mechanically from
// cargo-typify/src/lib.rs (lib/c15_prepare.py; drop list E1-E3 there).
//
// "The CLI ... accepts every valid crate@version (and rename=crate@version) specifier,
// writes to the input path with extension .rs by default, to stdout for `-`":
//
//   P1  for crate names over [A-Za-z][A-Za-z0-9_-]* (ENUMERATED literals covering letters,
//       digits, `-`, `_`, upper case): "<name>@*" parses, with that name, version Any and
//       no rename; "<rename>=<name>@*" parses with that rename
//   P2  "<name>@!" => Never; "<name>@<semver>" => that Version; a specifier without `@`,
//       or with an unparsable version, is rejected
//   P3  output_path: `-o -` => None (stdout); `-o p` => p; absent => input with extension rs
//   P4  use_builder == !no_builder
//
// Everything is a literal here (a concrete instance is the symbolic execution of one path):
// labelled bounded / enumerated, never counted as proved.

use super::*;
use std::str::FromStr;

fn check_spec(bytes: &[u8], name: &[u8], rename: Option<&[u8]>) {
    let s = unsafe { core::str::from_utf8_unchecked(bytes) };
    let r = CrateSpec::from_str(s);
    match &r {
        Ok(spec) => {
            kani::assert(
                spec.name.as_bytes() == name,
                "[C15/P1] parsed crate name differs from the specifier's",
            );
            kani::assert(
                matches!(spec.version, CrateVers::Any),
                "[C15/P1] version `*` did not parse as Any",
            );
            match (rename, &spec.rename) {
                (None, None) => {}
                (Some(want), Some(got)) => kani::assert(
                    got.as_bytes() == want,
                    "[C15/P1] parsed rename differs from the specifier's",
                ),
                _ => kani::assert(false, "[C15/P1] rename invented or dropped"),
            }
        }
        Err(_) => kani::assert(false, "[C15/P1] a valid crate@version specifier was rejected"),
    }
    kani::cover!(r.is_ok(), "[must] a specifier is accepted");
    core::mem::forget(r);
}

/// Symbolic crate-name characters do not terminate: `char::is_alphanumeric` on a symbolic
/// char walks the Unicode tables (CBMC ran out of memory at 14 GB even for a 1-character
/// name). The names are therefore ENUMERATED literals chosen to cover the grammar's classes
/// (letters, digits in every position but the first, `-`, `_`, upper case, renames); a
/// symbolic selector chooses between calls.
#[kani::proof]
#[kani::unwind(16)]
fn c15_spec_names() {
    let k: u8 = kani::any();
    match k {
        0 => check_spec(b"a@*", b"a", None),
        1 => check_spec(b"Z@*", b"Z", None),
        2 => check_spec(b"a1@*", b"a1", None),
        3 => check_spec(b"oxnet2@*", b"oxnet2", None),
        4 => check_spec(b"base64@*", b"base64", None),
        5 => check_spec(b"a-b@*", b"a-b", None),
        6 => check_spec(b"a_b@*", b"a_b", None),
        7 => check_spec(b"x9-y_0@*", b"x9-y_0", None),
        8 => check_spec(b"Uuid@*", b"Uuid", None),
        _ => check_spec(b"serde_json@*", b"serde_json", None),
    }
    kani::cover!(k == 3, "[must] a name with a digit is probed");
}

#[kani::proof]
#[kani::unwind(16)]
fn c15_spec_renames() {
    let k: u8 = kani::any();
    match k {
        0 => check_spec(b"b=a@*", b"a", Some(b"b")),
        1 => check_spec(b"new2=orig@*", b"orig", Some(b"new2")),
        2 => check_spec(b"my-uuid=uuid@*", b"uuid", Some(b"my-uuid")),
        3 => check_spec(b"a_1=b-2@*", b"b-2", Some(b"a_1")),
        _ => check_spec(b"X=y@*", b"y", Some(b"X")),
    }
    kani::cover!(k == 1, "[must] a rename with a digit is probed");
}

fn expect_version(s: &str, want: u8) {
    // want: 0 = Err, 1 = Any, 2 = Never, 3 = Version
    let r = CrateSpec::from_str(s);
    let got = match &r {
        Err(_) => 0,
        Ok(spec) => match spec.version {
            CrateVers::Any => 1,
            CrateVers::Never => 2,
            CrateVers::Version(_) => 3,
        },
    };
    kani::assert(
        got == want,
        "[C15/P2] crate specifier version accepted / rejected / classified wrongly",
    );
    core::mem::forget(r);
}

#[kani::proof]
#[kani::unwind(20)]
fn c15_spec_versions() {
    // a symbolic choice between calls on literal specifiers
    let k: u8 = kani::any();
    match k {
        0 => expect_version("a@*", 1),
        1 => expect_version("a@!", 2),
        2 => expect_version("a@1.2.3", 3),
        3 => expect_version("a@", 0),
        4 => expect_version("a", 0),
        5 => expect_version("a@x", 0),
        6 => expect_version("b=a@1.0.0", 3),
        _ => expect_version("a@**", 0),
    }
    kani::cover!(k == 2, "[must] semver instance reachable");
}

fn args(input: &str, output: Option<&str>, no_builder: bool, builder: bool) -> CliArgs {
    CliArgs {
        input: PathBuf::from(input),
        builder,
        no_builder,
        additional_derives: Vec::new(),
        output: output.map(PathBuf::from),
        crates: Vec::new(),
        map_type: None,
        unknown_crates: None,
    }
}

#[kani::proof]
#[kani::unwind(20)]
fn c15_output_path() {
    let k: u8 = kani::any();
    let (a, want): (CliArgs, Option<&str>) = match k {
        0 => (args("in.json", Some("-"), false, false), None),
        1 => (args("in.json", Some("o.rs"), false, false), Some("o.rs")),
        2 => (args("in.json", None, false, false), Some("in.rs")),
        3 => (args("d/in.json", None, false, false), Some("d/in.rs")),
        _ => (args("in", None, false, false), Some("in.rs")),
    };
    let got = a.output_path();
    match (&got, want) {
        (None, None) => {}
        (Some(p), Some(w)) => kani::assert(
            p.as_os_str().as_encoded_bytes() == w.as_bytes(),
            "[C15/P3] output path is not the given path / the input with extension rs",
        ),
        _ => kani::assert(false, "[C15/P3] stdout (`-`) and file output confused"),
    }
    kani::cover!(got.is_none(), "[must] stdout case reachable");
    core::mem::forget(got);
    core::mem::forget(a);
}

#[kani::proof]
fn c15_use_builder() {
    let no_builder: bool = kani::any();
    let builder: bool = kani::any();
    let a = args("i", None, no_builder, builder);
    kani::assert(
        a.use_builder() == !no_builder,
        "[C15/P4] builder interface not selected exactly when --no-builder is absent",
    );
    core::mem::forget(a);
}

#[kani::proof]
#[kani::unwind(12)]
fn canary_c15_cli() {
    let r = CrateSpec::from_str("a@*");
    kani::assert(r.is_err(), "[CANARY] `a@*` is never accepted");
    core::mem::forget(r);
}
