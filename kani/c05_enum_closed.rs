// @unit c05_enum_closed property=C05 attach=typify-impl/src/enums.rs
// @h c05_enum_closed_variant_any_order tier=native bounded=one-literal-union-of-2-inline-object-payloads,both-orders
// @native-canary canary_c05_enum_closed
//
// C05 -- "closed objects": an externally tagged union whose inline payload objects are of mixed
// closedness (`additionalProperties: false` on one payload only). The generated enum carries ONE
// container-level deny_unknown_fields flag for its struct variants
// (`maybe_externally_tagged_enum`): it must be set when ANY payload is closed, whatever the order
// of the oneOf members -- otherwise the closed payload accepts unknown members.
//
//   P2e some inline payload is closed ==> deny_unknown_fields of the enum, for the union
//       [closed {dx, dy}, open {text, volume}] in both orders. (The converse -- an all-open union
//       stays open -- is about accepting valid instances, property C02, and is not asserted.)
//
// BOUNDED STAND-IN (`tier=native`): the function goes through the conversion driver
// (external_variant -> struct_members -> id_for_schema), which is in reach of neither verifier;
// the literal instances are executed natively against the real code through the crate's own
// entry point (add_type_with_name). No symbolic value is drawn.

use super::*;
use crate::type_entry::TypeEntryDetails;

fn payload(tag: &str, a: &str, b: &str, closed: bool) -> serde_json::Value {
    let mut inner = serde_json::json!({
        "type": "object",
        "properties": { a: { "type": "integer" }, b: { "type": "integer" } },
        "required": [a, b]
    });
    if closed {
        inner["additionalProperties"] = serde_json::Value::Bool(false);
    }
    serde_json::json!({
        "type": "object",
        "properties": { tag: inner },
        "required": [tag],
        "additionalProperties": false
    })
}

fn enum_denies_unknown(members: Vec<serde_json::Value>) -> bool {
    let schema: Schema = serde_json::from_value(serde_json::json!({ "oneOf": members })).unwrap();
    let mut ts = TypeSpace::default();
    let id = ts.add_type_with_name(&schema, Some("Command".to_string())).unwrap();
    match &ts.id_to_entry.get(&id).unwrap().details {
        TypeEntryDetails::Enum(e) => e.deny_unknown_fields,
        _ => panic!("[TOOL] the literal union did not become an enum"),
    }
}

#[kani::proof]
fn c05_enum_closed_variant_any_order() {
    let closed = || payload("move", "dx", "dy", true);
    let open = || payload("say", "text", "volume", false);
    kani::assert(
        enum_denies_unknown(vec![closed(), open()]),
        "[C05/P2e] a closed inline payload (first member) does not close the generated enum's struct variants",
    );
    kani::assert(
        enum_denies_unknown(vec![open(), closed()]),
        "[C05/P2e] a closed inline payload (last member) does not close the generated enum's struct variants",
    );
}

#[kani::proof]
fn canary_c05_enum_closed() {
    kani::assert(
        !enum_denies_unknown(vec![payload("move", "dx", "dy", true), payload("say", "text", "volume", false)]),
        "[CANARY] a closed payload never closes the enum",
    );
}
