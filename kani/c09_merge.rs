// @unit c09_merge property=C09 attach=typify-impl/src/merge.rs
// @h c09_instance_single_single tier=both
// @h c09_instance_none_any tier=both bounded=type-arrays-of-2
// @h c09_instance_single_vec tier=both bounded=type-arrays-of-2
// @h c09_format_pairs tier=both bounded=enumerated-literal-format-pairs
// @h c09_format_int_pairs tier=both bounded=enumerated-literal-format-pairs
// @h c09_format_unknown_pairs tier=both bounded=enumerated-literal-format-pairs
// @h c09_choose_value tier=both
// @h c09_array_bounds tier=both
// @canary canary_c09_merge
//
// C09 -- allOf is intersection: the leaf merges.
//
// JSON values are abstracted to seven classes {null, bool, object, array, string,
// integral number, non-integral number}; admits(T, c) follows JSON Schema (an integral
// number satisfies both `integer` and `number`).
//
//   merge_so_instance_type(a, b):
//   P1  Ok(m) and c admitted by a and by b   ==>  c admitted by m   (no valid instance lost)
//   P2  Err  ==>  no class is admitted by both                    (never only if unsatisfiable)
//   P3  no class admitted by both  ==>  Err, or m admits nothing  (uninhabited, not permissive)
//   P4  merge(a, b) and merge(b, a) admit the same classes        (order independence)
//
//   merge_so_format(a, b):
//   P5  commutative; Ok(Some(f)) ==> f is one of the inputs; equal inputs merge to
//       themselves; absent is the identity
//   P6  Err ==> the two formats have no common instance (integer formats overlap pairwise)
//
//   choose_value: Some over None, `prefer` of both when both are Some.
//   merge_so_array (no item schemas): P8 length bounds are intersected, unsatisfiable
//       exactly when minItems > maxItems.

use super::*;

fn any_instance_type() -> InstanceType {
    let k: u8 = kani::any();
    match k {
        0 => InstanceType::Null,
        1 => InstanceType::Boolean,
        2 => InstanceType::Object,
        3 => InstanceType::Array,
        4 => InstanceType::Number,
        5 => InstanceType::String,
        _ => InstanceType::Integer,
    }
}

#[derive(Clone, Copy, PartialEq)]
enum Class {
    Null,
    Bool,
    Object,
    Array,
    String,
    Integral,
    NonIntegral,
}

const CLASSES: [Class; 7] = [
    Class::Null,
    Class::Bool,
    Class::Object,
    Class::Array,
    Class::String,
    Class::Integral,
    Class::NonIntegral,
];

fn admits_type(t: &InstanceType, c: Class) -> bool {
    match t {
        InstanceType::Null => c == Class::Null,
        InstanceType::Boolean => c == Class::Bool,
        InstanceType::Object => c == Class::Object,
        InstanceType::Array => c == Class::Array,
        InstanceType::String => c == Class::String,
        InstanceType::Number => c == Class::Integral || c == Class::NonIntegral,
        InstanceType::Integer => c == Class::Integral,
    }
}

fn admits(t: Option<&SingleOrVec<InstanceType>>, c: Class) -> bool {
    match t {
        None => true,
        Some(SingleOrVec::Single(t)) => admits_type(t, c),
        Some(SingleOrVec::Vec(ts)) => {
            let mut any = false;
            let mut i = 0;
            while i < ts.len() {
                if admits_type(&ts[i], c) {
                    any = true;
                }
                i += 1;
            }
            any
        }
    }
}

pub(crate) fn check_instance(a: Option<SingleOrVec<InstanceType>>, b: Option<SingleOrVec<InstanceType>>) {
    let ab = merge_so_instance_type(a.as_ref(), b.as_ref());
    let ba = merge_so_instance_type(b.as_ref(), a.as_ref());
    let mut both_any = false;
    let mut i = 0;
    while i < 7 {
        let c = CLASSES[i];
        let both = admits(a.as_ref(), c) && admits(b.as_ref(), c);
        both_any = both_any || both;
        if let Ok(m) = &ab {
            if both {
                kani::assert(
                    admits(m.as_ref(), c),
                    "[C09/P1] merged instance type rejects a value class valid under both subschemas",
                );
            }
            if let Ok(m2) = &ba {
                kani::assert(
                    admits(m.as_ref(), c) == admits(m2.as_ref(), c),
                    "[C09/P4] merge result depends on the order of the subschemas",
                );
            }
        }
        i += 1;
    }
    kani::assert(
        ab.is_ok() == ba.is_ok(),
        "[C09/P4] satisfiability of the merge depends on the order of the subschemas",
    );
    if ab.is_err() {
        kani::assert(
            !both_any,
            "[C09/P2] instance types with a common value class merged to `never`",
        );
    }
    if !both_any {
        let mut m_any = false;
        if let Ok(m) = &ab {
            let mut i = 0;
            while i < 7 {
                m_any = m_any || admits(m.as_ref(), CLASSES[i]);
                i += 1;
            }
        }
        kani::assert(
            !m_any,
            "[C09/P3] disjoint instance types merged to a permissive type",
        );
    }
    kani::cover!(ab.is_ok(), "[must] satisfiable merge reachable");
    kani::cover!(ab.is_err(), "[must] unsatisfiable merge reachable");
    core::mem::forget(ab);
    core::mem::forget(ba);
    core::mem::forget(a);
    core::mem::forget(b);
}

#[kani::proof]
#[kani::unwind(10)]
fn c09_instance_single_single() {
    check_instance(
        Some(SingleOrVec::Single(Box::new(any_instance_type()))),
        Some(SingleOrVec::Single(Box::new(any_instance_type()))),
    )
}

#[kani::proof]
#[kani::unwind(10)]
fn c09_instance_none_any() {
    let b = if kani::any() {
        SingleOrVec::Single(Box::new(any_instance_type()))
    } else {
        SingleOrVec::Vec(vec![any_instance_type(), any_instance_type()])
    };
    let b = if kani::any() { Some(b) } else { None };
    let ab = merge_so_instance_type(None, b.as_ref());
    let ba = merge_so_instance_type(b.as_ref(), None);
    let mut i = 0;
    while i < 7 {
        let c = CLASSES[i];
        match (&ab, &ba) {
            (Ok(m), Ok(m2)) => {
                kani::assert(
                    admits(m.as_ref(), c) == admits(b.as_ref(), c),
                    "[C09/P1] an absent type restriction is not the identity of the merge",
                );
                kani::assert(
                    admits(m2.as_ref(), c) == admits(b.as_ref(), c),
                    "[C09/P4] merge result depends on the order of the subschemas",
                );
            }
            _ => kani::assert(false, "[C09/P2] merge with an absent type restriction failed"),
        }
        i += 1;
    }
    kani::cover!(b.is_some(), "[must] restricted side reachable");
    core::mem::forget(ab);
    core::mem::forget(ba);
    core::mem::forget(b);
}

#[kani::proof]
#[kani::unwind(10)]
fn c09_instance_single_vec() {
    check_instance(
        Some(SingleOrVec::Single(Box::new(any_instance_type()))),
        Some(SingleOrVec::Vec(vec![any_instance_type(), any_instance_type()])),
    )
}

// ---------------------------------------------------------------- formats

fn fmt_eq(a: &Result<Option<String>, ()>, b: &Result<Option<String>, ()>) -> bool {
    match (a, b) {
        (Ok(None), Ok(None)) => true,
        (Ok(Some(x)), Ok(Some(y))) => x == y,
        (Err(()), Err(())) => true,
        _ => false,
    }
}

/// `overlap`: do the two formats have a common instance? (the harness's table of facts)
fn check_format(a: Option<&str>, b: Option<&str>, overlap: bool) {
    let sa = a.map(String::from);
    let sb = b.map(String::from);
    let ab = merge_so_format(sa.as_ref(), sb.as_ref());
    let ba = merge_so_format(sb.as_ref(), sa.as_ref());
    kani::assert(fmt_eq(&ab, &ba), "[C09/P5] format merge depends on the order of the subschemas");
    match &ab {
        Ok(None) => kani::assert(a.is_none() && b.is_none(), "[C09/P5] format merge dropped a format"),
        Ok(Some(f)) => kani::assert(
            a == Some(f.as_str()) || b == Some(f.as_str()),
            "[C09/P5] format merge invented a format",
        ),
        Err(()) => {
            kani::assert(a.is_some() && b.is_some(), "[C09/P5] absent format is not the identity");
            kani::assert(a != b, "[C09/P5] equal formats merged to `never`");
            kani::assert(
                !overlap,
                "[C09/P6] formats with common instances merged to `never`",
            );
        }
    }
    core::mem::forget(ab);
    core::mem::forget(ba);
    core::mem::forget(sa);
    core::mem::forget(sb);
}

#[kani::proof]
#[kani::unwind(24)]
fn c09_format_pairs() {
    // a symbolic choice between *calls*, never between strings
    let k: u8 = kani::any();
    match k {
        0 => check_format(None, None, true),
        1 => check_format(None, Some("uuid"), true),
        2 => check_format(Some("uuid"), Some("uuid"), true),
        3 => check_format(Some("ip"), Some("ipv4"), true),
        4 => check_format(Some("ip"), Some("ipv6"), true),
        5 => check_format(Some("ipv4"), Some("ipv6"), false),
        6 => check_format(Some("uuid"), Some("date"), false),
        7 => check_format(Some("date"), Some("date-time"), false),
        8 => check_format(Some("int32"), Some("int32"), true),
        9 => check_format(Some("ip"), Some("ip"), true),
        10 => check_format(Some("ipv6"), Some("ipv6"), true),
        _ => check_format(Some("ipv4"), None, true),
    }
    kani::cover!(k == 5, "[must] disjoint pair reachable");
}

#[kani::proof]
#[kani::unwind(24)]
fn c09_format_int_pairs() {
    // every pair of distinct integer formats has common instances (0..=127 at least)
    let k: u8 = kani::any();
    match k {
        0 => check_format(Some("int8"), Some("uint8"), true),
        1 => check_format(Some("int8"), Some("int16"), true),
        2 => check_format(Some("uint8"), Some("uint32"), true),
        3 => check_format(Some("int32"), Some("int64"), true),
        4 => check_format(Some("uint64"), Some("int64"), true),
        _ => check_format(Some("int"), Some("int32"), true),
    }
}

#[kani::proof]
#[kani::unwind(24)]
fn c09_format_unknown_pairs() {
    // a format no validator knows is an annotation: it constrains nothing, so it has common
    // instances with every other format
    let k: u8 = kani::any();
    match k {
        0 => check_format(Some(""), Some("uuid"), true),
        1 => check_format(Some("my-format"), Some("date"), true),
        _ => check_format(Some("x"), Some("y"), true),
    }
}

#[kani::proof]
fn c09_choose_value() {
    let a: Option<u32> = kani::any();
    let b: Option<u32> = kani::any();
    let lo = choose_value(a, b, Ord::min);
    let hi = choose_value(a, b, Ord::max);
    match (a, b) {
        (None, None) => kani::assert(lo.is_none() && hi.is_none(), "[C09/P7] choose_value invents a bound"),
        (Some(x), None) | (None, Some(x)) => kani::assert(
            lo == Some(x) && hi == Some(x),
            "[C09/P7] choose_value drops the only bound",
        ),
        (Some(x), Some(y)) => kani::assert(
            lo == Some(if x < y { x } else { y }) && hi == Some(if x < y { y } else { x }),
            "[C09/P7] choose_value does not take the tighter bound",
        ),
    }
    let ua: Option<bool> = kani::any();
    let ub: Option<bool> = kani::any();
    let u = choose_value(ua, ub, std::ops::BitOr::bitor);
    kani::assert(
        u.unwrap_or(false) == (ua.unwrap_or(false) || ub.unwrap_or(false)),
        "[C09/P7] uniqueItems of the merge is not the disjunction",
    );
    kani::cover!(a.is_some() && b.is_some(), "[must] both bounds present");
}

/// merge_so_array with no item schemas on either side: the merged length constraints are the
/// intersection (P8: minItems = the larger, maxItems = the smaller, uniqueItems = either),
/// and the merge is unsatisfiable exactly when minItems > maxItems.
#[kani::proof]
#[kani::unwind(10)]
fn c09_array_bounds() {
    let a = ArrayValidation {
        items: None,
        additional_items: None,
        max_items: kani::any(),
        min_items: kani::any(),
        unique_items: kani::any(),
        contains: None,
    };
    let b = ArrayValidation {
        items: None,
        additional_items: None,
        max_items: kani::any(),
        min_items: kani::any(),
        unique_items: kani::any(),
        contains: None,
    };
    let defs: BTreeMap<RefKey, Schema> = BTreeMap::new();
    let r = merge_so_array(Some(&a), Some(&b), &defs);
    let want_min = match (a.min_items, b.min_items) {
        (None, x) | (x, None) => x,
        (Some(x), Some(y)) => Some(if x > y { x } else { y }),
    };
    let want_max = match (a.max_items, b.max_items) {
        (None, x) | (x, None) => x,
        (Some(x), Some(y)) => Some(if x < y { x } else { y }),
    };
    let unsat = match (want_min, want_max) {
        (Some(lo), Some(hi)) => lo > hi,
        _ => false,
    };
    match &r {
        Err(()) => kani::assert(
            unsat,
            "[C09/P8] array length constraints with a common length merged to `never`",
        ),
        Ok(None) => kani::assert(false, "[C09/P8] merged array validation vanished"),
        Ok(Some(m)) => {
            kani::assert(
                !unsat,
                "[C09/P8] contradictory array length constraints (minItems > maxItems) merged to a permissive type",
            );
            kani::assert(
                m.min_items == want_min && m.max_items == want_max,
                "[C09/P8] merged array length bounds are not the intersection",
            );
            kani::assert(
                m.unique_items.unwrap_or(false)
                    == (a.unique_items.unwrap_or(false) || b.unique_items.unwrap_or(false)),
                "[C09/P8] merged uniqueItems is not the disjunction",
            );
            kani::assert(
                m.items.is_none() && m.contains.is_none(),
                "[C09/P8] merge invented an item schema",
            );
        }
    }
    kani::cover!(r.is_err(), "[must] unsatisfiable lengths reachable");
    kani::cover!(r.is_ok(), "[must] satisfiable lengths reachable");
    core::mem::forget(r);
    core::mem::forget(a);
    core::mem::forget(b);
    core::mem::forget(defs);
}

#[kani::proof]
#[kani::unwind(10)]
fn canary_c09_merge() {
    let a = Some(SingleOrVec::Single(Box::new(InstanceType::String)));
    let r = merge_so_instance_type(a.as_ref(), a.as_ref());
    kani::assert(r.is_err(), "[CANARY] equal instance types never merge");
    core::mem::forget(r);
    core::mem::forget(a);
}
