// @unit c15_cratevers property=C15 attach=typify-impl/src/lib.rs
// @h c15_cratevers_literals tier=both bounded=enumerated-literal-version-strings
// @canary canary_c15_cratevers
//
// C15 / C13 -- `CrateVers::parse`, the meaning of `*`, `!` and a version in every front end
// (macro `crates = { "x" = "*" }`, CLI `--crate x@*`, builder `with_crate`).
//
//   P2  "*" => Any;  "!" => Never;  a semver version => Version;  anything else => None
//
// Literal instances (the semver parser runs on constants): enumerated, labelled bounded.

use super::*;

fn classify(s: &str) -> u8 {
    match CrateVers::parse(s) {
        None => 0,
        Some(CrateVers::Any) => 1,
        Some(CrateVers::Never) => 2,
        Some(CrateVers::Version(v)) => {
            core::mem::forget(v);
            3
        }
    }
}

#[kani::proof]
#[kani::unwind(24)]
fn c15_cratevers_literals() {
    let k: u8 = kani::any();
    let (got, want) = match k {
        0 => (classify("*"), 1),
        1 => (classify("!"), 2),
        2 => (classify("1.2.3"), 3),
        3 => (classify("0.1.0-rc.1"), 3),
        4 => (classify(""), 0),
        5 => (classify("x"), 0),
        6 => (classify("**"), 0),
        7 => (classify("!1"), 0),
        8 => (classify("1.2"), 0),
        _ => (classify(" *"), 0),
    };
    kani::assert(
        got == want,
        "[C15/P2] CrateVers::parse classifies a version string wrongly",
    );
    kani::cover!(k == 3, "[must] prerelease instance reachable");
}

#[kani::proof]
#[kani::unwind(24)]
fn canary_c15_cratevers() {
    kani::assert(classify("*") != 1, "[CANARY] `*` never parses as Any");
}
