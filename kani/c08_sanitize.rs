// @unit c08_sanitize property=C08 attach=typify-impl/src/util.rs
// @h c08_sanitize_literals tier=native bounded=20-literal-names-x-2-cases
// @native-canary canary_c08_sanitize
//
// C08 -- "arbitrary JSON names map to valid identifiers": `util::sanitize`.
//
//   P4  sanitize(name, case) is a valid Rust identifier (accepted by syn as an `Ident`, first
//       character XID_Start or `_`, the others XID_Continue), for both cases
//
// sanitize reaches syn::parse_str, which crashes kani-compiler, and heck's Unicode casing: in
// the C08 Kani harnesses it only ever appears as a stub. BOUNDED STAND-IN (`tier=native`): 20
// literal names chosen for the classes the function distinguishes -- plain, leading ASCII digit,
// leading NON-ASCII digit (alphanumeric, XID_Continue, not XID_Start), separators, keywords
// (strict, reserved, `self`/`Self`/`crate`), the special-cased "+1" / "-1" / "async", quotes,
// symbols only, empty, lone underscore, non-ASCII letters, characters that are alphanumeric but
// not XID_Continue (superscripts, fractions, circled digits) -- executed natively, both cases.

use super::*;

fn valid_ident(s: &str) -> bool {
    let mut cs = s.chars();
    let first_ok = match cs.next() {
        Some(c) => c == '_' || unicode_ident::is_xid_start(c),
        None => false,
    };
    first_ok && cs.all(unicode_ident::is_xid_continue) && s != "_" && syn::parse_str::<syn::Ident>(s).is_ok()
}

const NAMES: [&str; 20] = [
    "abc", "1abc", "٣d", "a-b c", "type", "Self", "self", "crate", "+1", "-1", "async", "'quoted'", "$%^", "", "_", "ǅx", "日本",
    "m²", "½x", "Area①",
];

#[kani::proof]
fn c08_sanitize_literals() {
    for name in NAMES {
        for case in [Case::Pascal, Case::Snake] {
            let out = sanitize(name, case);
            if !valid_ident(&out) {
                panic!("[C08/P4] sanitize({:?}) = {:?} is not a valid Rust identifier", name, out);
            }
        }
    }
}

#[kani::proof]
fn canary_c08_sanitize() {
    kani::assert(!valid_ident(&sanitize("abc", Case::Snake)), "[CANARY] sanitize never yields an identifier");
}
