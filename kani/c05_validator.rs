// @unit c05_validator property=C05 attach=typify-impl/src/util.rs
// @h c05_is_valid_empty tier=both bounded=the-empty-string
// @h c05_is_valid_w1 tier=both bounded=1-scalar-value
// @h c05_is_valid_w2 tier=both bounded=1-scalar-value
// @h c05_is_valid_w3 tier=both bounded=1-scalar-value
// @h c05_is_valid_w4 tier=both bounded=1-scalar-value
// @h c05_is_valid_w1_w1 tier=both bounded=2-scalar-values
// @h c05_is_valid_w1_w2 tier=both bounded=2-scalar-values
// @h c05_is_valid_w1_w3 tier=both bounded=2-scalar-values
// @h c05_is_valid_w1_w4 tier=both bounded=2-scalar-values
// @h c05_is_valid_w2_w1 tier=both bounded=2-scalar-values
// @h c05_is_valid_w2_w2 tier=both bounded=2-scalar-values
// @h c05_is_valid_w2_w3 tier=both bounded=2-scalar-values
// @h c05_is_valid_w2_w4 tier=both bounded=2-scalar-values
// @h c05_is_valid_w3_w1 tier=both bounded=2-scalar-values
// @h c05_is_valid_w3_w2 tier=both bounded=2-scalar-values
// @h c05_is_valid_w3_w3 tier=both bounded=2-scalar-values
// @h c05_is_valid_w3_w4 tier=both bounded=2-scalar-values
// @h c05_is_valid_w4_w1 tier=both bounded=2-scalar-values
// @h c05_is_valid_w4_w2 tier=both bounded=2-scalar-values
// @h c05_is_valid_w4_w3 tier=both bounded=2-scalar-values
// @h c05_is_valid_w4_w4 tier=both bounded=2-scalar-values
// @h c05_is_valid_w1_w1_w1 tier=thorough bounded=3-scalar-values
// @h c05_is_valid_w1_w2_w3 tier=thorough bounded=3-scalar-values
// @h c05_is_valid_w2_w2_w2 tier=thorough bounded=3-scalar-values
// @h c05_is_valid_w3_w1_w4 tier=thorough bounded=3-scalar-values
// @h c05_is_valid_w4_w4_w4 tier=thorough bounded=3-scalar-values
// @h c05_is_valid_w4_w3_w2 tier=thorough bounded=3-scalar-values
// @h c05_is_valid_w2_w4_w1 tier=thorough bounded=3-scalar-values
// @h c05_is_valid_w3_w3_w3 tier=thorough bounded=3-scalar-values
// @h c05_validator_new tier=both
// @canary canary_c05_validator
//
// C05 -- generation-time filtering of enumerated strings by minLength / maxLength.
//
// `StringValidator::is_valid` decides which enumerated string values survive into a
// generated enum (convert_enum_string). The property counts lengths in Unicode scalar
// values, so, with no pattern:
//
//   P1  is_valid(s)  ==  (min <= |s|  and  |s| <= max),  |s| = number of Unicode scalar
//       values of s, absent bound = no constraint
//   P1n StringValidator::new(name, Some({max, min, pattern: None})) is Ok and carries
//       exactly those bounds; new(name, None) carries none
//
// `s` is built on a stack buffer from symbolic well-formed UTF-8 sequences: every scalar
// value of the harness's width class (the four classes together are all of Unicode) --
// bounded in the NUMBER of characters (0, 1, 2), not in which characters. All 1 + 4 + 16 width
// layouts of at most two characters; eight 3-character layouts in the thorough tier.

use super::*;

/// stub for `regress::Regex::find` (the backtracking matcher is far outside CBMC's reach and
/// is statically reachable from is_valid); never reached here because no pattern is given.
fn stub_regex_find(_re: &regress::Regex, _s: &str) -> Option<regress::Match> {
    kani::assert(false, "[TOOL] regress::Regex::find reached: unsupported in this harness");
    None
}

/// Write one symbolic Unicode scalar value of UTF-8 width `w` at `buf[at..at + w]`: every
/// well-formed sequence of that width (RFC 3629 table: no overlong forms, no surrogates,
/// nothing above U+10FFFF). The width -- hence the byte length of the string -- is concrete
/// per harness: with a symbolic length CBMC also executes std's long-string counting path
/// (`do_count_chars`, raw pointer alignment) and does not terminate.
fn put_char(buf: &mut [u8; 12], at: usize, w: usize) {
    let b0: u8 = kani::any();
    let b1: u8 = kani::any();
    let b2: u8 = kani::any();
    let b3: u8 = kani::any();
    match w {
        1 => {
            kani::assume(b0 < 0x80);
            buf[at] = b0;
        }
        2 => {
            kani::assume(0xC2 <= b0 && b0 <= 0xDF);
            kani::assume(0x80 <= b1 && b1 <= 0xBF);
            buf[at] = b0;
            buf[at + 1] = b1;
        }
        3 => {
            kani::assume(0xE0 <= b0 && b0 <= 0xEF);
            let lo = if b0 == 0xE0 { 0xA0 } else { 0x80 };
            let hi = if b0 == 0xED { 0x9F } else { 0xBF };
            kani::assume(lo <= b1 && b1 <= hi);
            kani::assume(0x80 <= b2 && b2 <= 0xBF);
            buf[at] = b0;
            buf[at + 1] = b1;
            buf[at + 2] = b2;
        }
        _ => {
            kani::assume(0xF0 <= b0 && b0 <= 0xF4);
            let lo = if b0 == 0xF0 { 0x90 } else { 0x80 };
            let hi = if b0 == 0xF4 { 0x8F } else { 0xBF };
            kani::assume(lo <= b1 && b1 <= hi);
            kani::assume(0x80 <= b2 && b2 <= 0xBF);
            kani::assume(0x80 <= b3 && b3 <= 0xBF);
            buf[at] = b0;
            buf[at + 1] = b1;
            buf[at + 2] = b2;
            buf[at + 3] = b3;
        }
    }
}

/// `w1`, `w2`, `w3`: UTF-8 widths of the characters; 0 = absent.
fn check_is_valid(w1: usize, w2: usize, w3: usize) {
    let mut buf = [0u8; 12];
    let mut n: u32 = 0;
    if w1 > 0 {
        put_char(&mut buf, 0, w1);
        n += 1;
    }
    if w2 > 0 {
        put_char(&mut buf, w1, w2);
        n += 1;
    }
    if w3 > 0 {
        put_char(&mut buf, w1 + w2, w3);
        n += 1;
    }
    let len = w1 + w2 + w3;
    let s = unsafe { core::str::from_utf8_unchecked(&buf[..len]) };
    let max_length: Option<u32> = kani::any();
    let min_length: Option<u32> = kani::any();
    let v = StringValidator {
        max_length,
        min_length,
        pattern: None,
    };
    let got = v.is_valid(s);
    let want = min_length.map_or(true, |m| m <= n) && max_length.map_or(true, |m| n <= m);
    kani::assert(
        got == want,
        "[C05/P1] enum-value length filter disagrees with the Unicode-scalar-value count",
    );
    kani::cover!(got, "[must] a string is accepted");
    kani::cover!(!got, "[must] a string is rejected");
    core::mem::forget(v);
}

macro_rules! iv {
    ($name:ident, $w1:expr, $w2:expr, $w3:expr) => {
        #[kani::proof]
        #[kani::unwind(16)]
        #[kani::stub(regress::Regex::find, stub_regex_find)]
        fn $name() {
            check_is_valid($w1, $w2, $w3)
        }
    };
}

iv!(c05_is_valid_empty, 0, 0, 0);
iv!(c05_is_valid_w1, 1, 0, 0);
iv!(c05_is_valid_w2, 2, 0, 0);
iv!(c05_is_valid_w3, 3, 0, 0);
iv!(c05_is_valid_w4, 4, 0, 0);
iv!(c05_is_valid_w1_w1, 1, 1, 0);
iv!(c05_is_valid_w1_w2, 1, 2, 0);
iv!(c05_is_valid_w1_w3, 1, 3, 0);
iv!(c05_is_valid_w1_w4, 1, 4, 0);
iv!(c05_is_valid_w2_w1, 2, 1, 0);
iv!(c05_is_valid_w2_w2, 2, 2, 0);
iv!(c05_is_valid_w2_w3, 2, 3, 0);
iv!(c05_is_valid_w2_w4, 2, 4, 0);
iv!(c05_is_valid_w3_w1, 3, 1, 0);
iv!(c05_is_valid_w3_w2, 3, 2, 0);
iv!(c05_is_valid_w3_w3, 3, 3, 0);
iv!(c05_is_valid_w3_w4, 3, 4, 0);
iv!(c05_is_valid_w4_w1, 4, 1, 0);
iv!(c05_is_valid_w4_w2, 4, 2, 0);
iv!(c05_is_valid_w4_w3, 4, 3, 0);
iv!(c05_is_valid_w4_w4, 4, 4, 0);
iv!(c05_is_valid_w1_w1_w1, 1, 1, 1);
iv!(c05_is_valid_w1_w2_w3, 1, 2, 3);
iv!(c05_is_valid_w2_w2_w2, 2, 2, 2);
iv!(c05_is_valid_w3_w1_w4, 3, 1, 4);
iv!(c05_is_valid_w4_w4_w4, 4, 4, 4);
iv!(c05_is_valid_w4_w3_w2, 4, 3, 2);
iv!(c05_is_valid_w2_w4_w1, 2, 4, 1);
iv!(c05_is_valid_w3_w3_w3, 3, 3, 3);

#[kani::proof]
#[kani::unwind(12)]
#[kani::stub(regress::Regex::new, crate::verif_common::stub_regex_new)]
fn c05_validator_new() {
    let max_length: Option<u32> = kani::any();
    let min_length: Option<u32> = kani::any();
    let validation = StringValidation {
        max_length,
        min_length,
        pattern: None,
    };
    let with: bool = kani::any();
    let name = Name::Unknown;
    let r = StringValidator::new(&name, if with { Some(&validation) } else { None });
    match &r {
        Ok(v) => {
            kani::assert(v.pattern.is_none(), "[C05/P1n] validator has a pattern nobody gave");
            if with {
                kani::assert(
                    v.max_length == max_length && v.min_length == min_length,
                    "[C05/P1n] validator does not carry the schema's length bounds",
                );
            } else {
                kani::assert(
                    v.max_length.is_none() && v.min_length.is_none(),
                    "[C05/P1n] validator invents a bound",
                );
            }
        }
        Err(_) => kani::assert(false, "[C05/P1n] validation without a pattern rejected"),
    }
    kani::cover!(with && max_length.is_some(), "[must] bounded validator reachable");
    core::mem::forget(r);
    core::mem::forget(validation);
}

#[kani::proof]
#[kani::unwind(12)]
fn canary_c05_validator() {
    let v = StringValidator {
        max_length: Some(3),
        min_length: None,
        pattern: None,
    };
    kani::assert(!v.is_valid("abc"), "[CANARY] a 3-character string never passes maxLength 3");
    core::mem::forget(v);
}
