// @unit c05_validator property=C05 attach=typify-impl/src/util.rs
// @h c05_is_valid_one_char tier=both bounded=strings-of-at-most-1-unicode-scalar-value
// @h c05_is_valid_two_chars tier=both bounded=strings-of-at-most-2-unicode-scalar-values
// @h c05_validator_new tier=both
// @canary canary_c05_validator
//
// C05 -- generation-time filtering of enumerated strings by minLength / maxLength.
//
// `StringValidator::is_valid` decides which enumerated string values survive into a
// generated enum (convert_enum_string). The property counts lengths in Unicode scalar
// values, so, with no pattern:
//
//   P1  is_valid(s)  ==  (min <= |s|  and  |s| <= max),  |s| = number of Unicode scalar
//       values of s, absent bound = no constraint
//   P1n StringValidator::new(name, Some({max, min, pattern: None})) is Ok and carries
//       exactly those bounds; new(name, None) carries none
//
// `s` is built on a stack buffer from symbolic `char`s (every scalar value, all four
// UTF-8 widths) -- bounded in the NUMBER of characters, not in which characters.

use super::*;

fn any_string_of<'a>(buf: &'a mut [u8; 8], max_chars: usize) -> (&'a str, usize) {
    let n: usize = kani::any();
    kani::assume(n <= max_chars);
    let mut len = 0;
    let mut i = 0;
    while i < max_chars {
        if i < n {
            let c: char = kani::any();
            len += c.encode_utf8(&mut buf[len..]).len();
        }
        i += 1;
    }
    let s = unsafe { core::str::from_utf8_unchecked(&buf[..len]) };
    (s, n)
}

fn check_is_valid(max_chars: usize) {
    let mut buf = [0u8; 8];
    let (s, n) = any_string_of(&mut buf, max_chars);
    let max_length: Option<u32> = kani::any();
    let min_length: Option<u32> = kani::any();
    let v = StringValidator {
        max_length,
        min_length,
        pattern: None,
    };
    let got = v.is_valid(s);
    let n = n as u32;
    let want = min_length.map_or(true, |m| m <= n) && max_length.map_or(true, |m| n <= m);
    kani::assert(
        got == want,
        "[C05/P1] enum-value length filter disagrees with the Unicode-scalar-value count",
    );
    kani::cover!(got && s.len() as u32 > n, "[must] a multi-byte string is accepted");
    kani::cover!(!got, "[must] a string is rejected");
    core::mem::forget(v);
}

#[kani::proof]
#[kani::unwind(12)]
fn c05_is_valid_one_char() {
    check_is_valid(1)
}

#[kani::proof]
#[kani::unwind(12)]
fn c05_is_valid_two_chars() {
    check_is_valid(2)
}

#[kani::proof]
#[kani::unwind(12)]
fn c05_validator_new() {
    let max_length: Option<u32> = kani::any();
    let min_length: Option<u32> = kani::any();
    let validation = StringValidation {
        max_length,
        min_length,
        pattern: None,
    };
    let with: bool = kani::any();
    let name = Name::Unknown;
    let r = StringValidator::new(&name, if with { Some(&validation) } else { None });
    match &r {
        Ok(v) => {
            kani::assert(v.pattern.is_none(), "[C05/P1n] validator has a pattern nobody gave");
            if with {
                kani::assert(
                    v.max_length == max_length && v.min_length == min_length,
                    "[C05/P1n] validator does not carry the schema's length bounds",
                );
            } else {
                kani::assert(
                    v.max_length.is_none() && v.min_length.is_none(),
                    "[C05/P1n] validator invents a bound",
                );
            }
        }
        Err(_) => kani::assert(false, "[C05/P1n] validation without a pattern rejected"),
    }
    kani::cover!(with && max_length.is_some(), "[must] bounded validator reachable");
    core::mem::forget(r);
    core::mem::forget(validation);
}

#[kani::proof]
#[kani::unwind(12)]
fn canary_c05_validator() {
    let v = StringValidator {
        max_length: Some(3),
        min_length: None,
        pattern: None,
    };
    kani::assert(!v.is_valid("abc"), "[CANARY] a 3-character string never passes maxLength 3");
    core::mem::forget(v);
}
