// @unit c09_object property=C09 attach=typify-impl/src/merge.rs
// @h c09_object_bounds tier=both
// @canary canary_c09_object
//
// C09 -- merge_so_object on two object validations WITHOUT properties: the property-count
// bounds are intersected (P11: minProperties = the larger, maxProperties = the smaller) and
// the merge is unsatisfiable EXACTLY when minProperties > maxProperties -- an object with
// exactly n properties satisfies {minProperties: n} and {maxProperties: n} both, so equal
// bounds must not merge to `never`. All Option<u32> bounds symbolic.
// merge_additional_properties (absent on both sides) is stubbed to None: the real one
// reaches try_merge_schema and with it the whole merge recursion.

use super::*;

fn stub_additional_properties(
    _a: Option<&Schema>,
    _b: Option<&Schema>,
    _defs: &BTreeMap<RefKey, Schema>,
) -> Option<Schema> {
    None
}

fn ov(max: Option<u32>, min: Option<u32>) -> ObjectValidation {
    ObjectValidation {
        max_properties: max,
        min_properties: min,
        required: BTreeSet::new(),
        properties: Default::default(),
        pattern_properties: Default::default(),
        additional_properties: None,
        property_names: None,
    }
}

#[kani::proof]
#[kani::unwind(6)]
#[kani::stub(merge_additional_properties, stub_additional_properties)]
fn c09_object_bounds() {
    let a = ov(kani::any(), kani::any());
    let b = ov(kani::any(), kani::any());
    let defs: BTreeMap<RefKey, Schema> = BTreeMap::new();
    let r = merge_so_object(Some(&a), Some(&b), &defs);
    let want_min = match (a.min_properties, b.min_properties) {
        (None, x) | (x, None) => x,
        (Some(x), Some(y)) => Some(if x > y { x } else { y }),
    };
    let want_max = match (a.max_properties, b.max_properties) {
        (None, x) | (x, None) => x,
        (Some(x), Some(y)) => Some(if x < y { x } else { y }),
    };
    let unsat = match (want_min, want_max) {
        (Some(lo), Some(hi)) => lo > hi,
        _ => false,
    };
    match &r {
        Err(()) => kani::assert(
            unsat,
            "[C09/P11] property-count constraints with a common count merged to `never`",
        ),
        Ok(None) => kani::assert(false, "[C09/P11] merged object validation vanished"),
        Ok(Some(m)) => {
            kani::assert(
                !unsat,
                "[C09/P11] contradictory property-count constraints (minProperties > maxProperties) merged to a permissive type",
            );
            kani::assert(
                m.min_properties == want_min && m.max_properties == want_max,
                "[C09/P11] merged property-count bounds are not the intersection",
            );
            kani::assert(
                m.additional_properties.is_none() && m.property_names.is_none(),
                "[C09/P11] merge invented a property schema",
            );
        }
    }
    kani::cover!(r.is_err(), "[must] unsatisfiable counts reachable");
    kani::cover!(r.is_ok(), "[must] satisfiable counts reachable");
    core::mem::forget(r);
    core::mem::forget(a);
    core::mem::forget(b);
    core::mem::forget(defs);
}

#[kani::proof]
#[kani::unwind(6)]
#[kani::stub(merge_additional_properties, stub_additional_properties)]
fn canary_c09_object() {
    let a = ov(Some(3), Some(1));
    let defs: BTreeMap<RefKey, Schema> = BTreeMap::new();
    let r = merge_so_object(Some(&a), Some(&a), &defs);
    kani::assert(r.is_err(), "[CANARY] an object validation never merges with itself");
    core::mem::forget(r);
    core::mem::forget(a);
    core::mem::forget(defs);
}
