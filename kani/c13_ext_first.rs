// @unit c13_ext_first property=C13 attach=typify-impl/src/convert.rs
// @h c13_extension_answer_is_used tier=both replay=none
// @h c13_no_extension_answer_falls_through tier=both replay=none
// @canary canary_c13_ext_first
//
// C13 -- "the extension is consulted before any structural conversion" and "when
// substituted ... the schema's own structure is not generated": routing obligation on
// `convert_schema_object`.
//
//   X1  if convert_rust_extension answers Some(entry), convert_schema_object returns exactly
//       that entry with the schema's own metadata and calls NO structural conversion
//       (an integer schema is used: convert_integer must not run)
//   X2  if it answers None, the structural conversion runs (convert_integer, once)
//
// convert_rust_extension and convert_integer are replaced by recording stubs.

use super::*;
use crate::type_entry::{TypeEntry, TypeEntryDetails};
use crate::verif_common::empty_type_space;

static mut EXT_CALLS: u8 = 0;
static mut EXT_ANSWERS: bool = false;
static mut INT_CALLS: u8 = 0;

fn stub_ext(_ts: &mut TypeSpace, _schema: &SchemaObject) -> Option<TypeEntry> {
    unsafe {
        EXT_CALLS += 1;
        if EXT_ANSWERS {
            Some(TypeEntry::new_native_params("::ext::MARK", &[]))
        } else {
            None
        }
    }
}

fn stub_int<'a>(
    _ts: &TypeSpace,
    metadata: &'a Option<Box<Metadata>>,
    _validation: &Option<Box<schemars::schema::NumberValidation>>,
    _format: &Option<String>,
) -> Result<(TypeEntry, &'a Option<Box<Metadata>>)> {
    unsafe {
        INT_CALLS += 1;
    }
    Ok((TypeEntryDetails::Integer(String::from("i64")).into(), metadata))
}

macro_rules! stubs {
    (fn $name:ident() $body:block) => {
        #[kani::proof]
        #[kani::unwind(24)]
        #[kani::stub(crate::MapType::new, crate::verif_common::stub_map_type_new)]
        #[kani::stub(crate::util::sanitize, crate::verif_common::stub_sanitize)]
        #[kani::stub(regress::Regex::new, crate::verif_common::stub_regex_new)]
        #[kani::stub(crate::TypeSpace::convert_rust_extension, stub_ext)]
        #[kani::stub(crate::TypeSpace::convert_integer, stub_int)]
        fn $name() $body
    };
}

fn run(answers: bool) -> bool {
    let mut ts = empty_type_space();
    unsafe {
        EXT_ANSWERS = answers;
    }
    let obj = SchemaObject {
        instance_type: Some(SingleOrVec::Single(Box::new(InstanceType::Integer))),
        ..Default::default()
    };
    let original = Schema::Bool(true);
    let r = ts.convert_schema_object(Name::Unknown, &original, &obj);
    let is_mark = match &r {
        Ok((TypeEntry { details: TypeEntryDetails::Native(n), .. }, m)) => {
            n.type_name == "::ext::MARK" && (*m as *const _ as usize) == (&obj.metadata as *const _ as usize)
        }
        _ => false,
    };
    core::mem::forget(r);
    core::mem::forget(obj);
    core::mem::forget(ts);
    is_mark
}

stubs! {
    fn c13_extension_answer_is_used() {
        let is_mark = run(true);
        unsafe {
            kani::assert(EXT_CALLS == 1, "[C13/X1] the x-rust-type extension is not consulted exactly once");
            kani::assert(
                is_mark,
                "[C13/X1] the extension's answer is not what stands for the schema (with the schema's own metadata)",
            );
            kani::assert(
                INT_CALLS == 0,
                "[C13/X1] the schema's own structure was converted although the extension substituted it",
            );
        }
    }
}

stubs! {
    fn c13_no_extension_answer_falls_through() {
        let is_mark = run(false);
        unsafe {
            kani::assert(EXT_CALLS == 1, "[C13/X2] the x-rust-type extension is not consulted exactly once");
            kani::assert(!is_mark, "[C13/X2] an external type appeared without an extension answer");
            kani::assert(INT_CALLS == 1, "[C13/X2] the schema was not converted from its structure");
        }
    }
}

stubs! {
    fn canary_c13_ext_first() {
        let _ = run(true);
        unsafe {
            kani::assert(EXT_CALLS == 0, "[CANARY] the extension is never consulted");
        }
    }
}
