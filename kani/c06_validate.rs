// @unit c06_validate property=C06 attach=typify-impl/src/defaults.rs
// @h c06_validate_unit tier=both
// @h c06_validate_boolean tier=both
// @h c06_validate_integer_i64 tier=both
// @h c06_validate_integer_u8 tier=both
// @h c06_validate_integer_nonzero tier=both
// @h c06_validate_float tier=both
// @h c06_validate_string tier=both
// @h c06_validate_enum_external tier=both bounded=default-string-of-at-most-2-ASCII-bytes,enum-of-2-simple-variants
// @h c06_validate_array_too_long tier=both bounded=fixed-length-2-array-of-bool,defaults-of-1-and-3-elements
// @h c06_validate_array_too_short tier=both bounded=fixed-length-2-array-of-bool,defaults-of-1-and-3-elements
// @needs te_support
// @canary canary_c06_validate
//
// C06 -- leaf default validation (`TypeEntry::validate_value`).
//
// "A default that is not a valid instance of its schema is reported as an error when
// the schema is added." For the leaf kinds the check is type soundness:
//
//   P1  Ok(_)              ==> the JSON value has the JSON type of the kind
//                              (Unit: null, Boolean: bool, Integer: an integral number,
//                              Float: a number, String: a string)
//   P2  Ok(Intrinsic)      ==> the value equals the kind's Rust `Default`
//                              (null, false, 0, 0.0, "") -- Intrinsic makes the generated
//                              code call Default::default()
//   P3  Ok(Generic(g))     ==> Boolean: g = Boolean and the value is `true`;
//                              Integer: g = U64 / NZU64 for a positive value (NZU64 exactly
//                              for the NonZero types), g = I64 for a negative value
//
//   P1a a default for a fixed-length array whose element count differs from the array length
//       is rejected (the generated `[T; N]` literal would not compile) -- decided only for the
//       WRONG lengths (1 and 3 elements against N = 2; the length test precedes the item
//       lookup). A right-length default reaches the item entry's lookup and the recursive
//       validate_value, which CBMC does not finish.
//
// The kind is concrete per harness; the JSON value is symbolic over
// {null, bool, u64, negative i64, finite f64, "", a non-empty string, [], {}}.
// Strings and containers are constructed under branches of a symbolic selector, never
// picked by a symbolic index.

use super::*;
use crate::verif_common::{any_finite, empty_type_space};
use crate::DefaultImpl;
use serde_json::Value;

#[derive(Clone, Copy, PartialEq)]
enum Shape {
    Null,
    Bool(bool),
    PosInt(u64),
    NegInt(i64),
    Float(f64),
    EmptyStr,
    Str,
    Array,
    Object,
}

fn any_value() -> (Value, Shape) {
    let sel: u8 = kani::any();
    match sel {
        0 => (Value::Null, Shape::Null),
        1 => {
            let b: bool = kani::any();
            (Value::Bool(b), Shape::Bool(b))
        }
        2 => {
            let u: u64 = kani::any();
            (Value::Number(serde_json::Number::from(u)), Shape::PosInt(u))
        }
        3 => {
            let i: i64 = kani::any();
            kani::assume(i < 0);
            (Value::Number(serde_json::Number::from(i)), Shape::NegInt(i))
        }
        4 => {
            let f = any_finite();
            (
                Value::Number(serde_json::Number::from_f64(f).unwrap()),
                Shape::Float(f),
            )
        }
        5 => (Value::String(String::new()), Shape::EmptyStr),
        6 => (Value::String(String::from("x")), Shape::Str),
        7 => (Value::Array(Vec::new()), Shape::Array),
        _ => (Value::Object(serde_json::Map::new()), Shape::Object),
    }
}

#[derive(Clone, Copy, PartialEq)]
enum Kind {
    Unit,
    Boolean,
    Integer { nonzero: bool },
    Float,
    String,
}

fn check(details: TypeEntryDetails, kind: Kind) {
    let ts = empty_type_space();
    let entry: TypeEntry = details.into();
    let (value, shape) = any_value();
    let result = entry.validate_value(&ts, &value);

    if let Ok(dk) = &result {
        let type_ok = match kind {
            Kind::Unit => shape == Shape::Null,
            Kind::Boolean => matches!(shape, Shape::Bool(_)),
            Kind::Integer { .. } => matches!(shape, Shape::PosInt(_) | Shape::NegInt(_)),
            Kind::Float => matches!(shape, Shape::PosInt(_) | Shape::NegInt(_) | Shape::Float(_)),
            Kind::String => matches!(shape, Shape::EmptyStr | Shape::Str),
        };
        kani::assert(
            type_ok,
            "[C06/P1] a default of the wrong JSON type was accepted for a leaf kind",
        );
        match dk {
            DefaultKind::Intrinsic => {
                let is_default = match (kind, shape) {
                    (Kind::Unit, Shape::Null) => true,
                    (Kind::Boolean, Shape::Bool(b)) => !b,
                    (Kind::Integer { .. }, Shape::PosInt(u)) => u == 0,
                    (Kind::Float, Shape::PosInt(u)) => u == 0,
                    (Kind::Float, Shape::Float(f)) => f == 0.0,
                    (Kind::String, Shape::EmptyStr) => true,
                    _ => false,
                };
                kani::assert(
                    is_default,
                    "[C06/P2] Intrinsic (Default::default()) chosen for a value that is not the type's default",
                );
            }
            DefaultKind::Generic(g) => match kind {
                Kind::Boolean => kani::assert(
                    matches!(g, DefaultImpl::Boolean) && shape == Shape::Bool(true),
                    "[C06/P3] generic default function does not match a boolean `true`",
                ),
                Kind::Integer { nonzero } => {
                    let ok = match (g, shape) {
                        (DefaultImpl::U64, Shape::PosInt(u)) => !nonzero && u != 0,
                        (DefaultImpl::NZU64, Shape::PosInt(u)) => nonzero && u != 0,
                        (DefaultImpl::I64, Shape::NegInt(_)) => true,
                        _ => false,
                    };
                    kani::assert(
                        ok,
                        "[C06/P3] generic default function does not match the integer's kind and sign",
                    );
                }
                _ => {}
            },
            DefaultKind::Specific => {}
        }
    }
    kani::cover!(result.is_ok(), "[must] some default is accepted");
    kani::cover!(result.is_err() || kind == Kind::String, "[info] some default is rejected");
    core::mem::forget(result);
    core::mem::forget(value);
    core::mem::forget(entry);
    core::mem::forget(ts);
}

macro_rules! h {
    ($name:ident, $details:expr, $kind:expr) => {
        #[kani::proof]
        #[kani::unwind(24)]
        #[kani::stub(crate::MapType::new, crate::verif_common::stub_map_type_new)]
        #[kani::stub(crate::util::sanitize, crate::verif_common::stub_sanitize)]
        fn $name() {
            check($details, $kind)
        }
    };
}

h!(c06_validate_unit, TypeEntryDetails::Unit, Kind::Unit);
h!(c06_validate_boolean, TypeEntryDetails::Boolean, Kind::Boolean);
h!(
    c06_validate_integer_i64,
    TypeEntryDetails::Integer("i64".to_string()),
    Kind::Integer { nonzero: false }
);
h!(
    c06_validate_integer_u8,
    TypeEntryDetails::Integer("u8".to_string()),
    Kind::Integer { nonzero: false }
);
h!(
    c06_validate_integer_nonzero,
    TypeEntryDetails::Integer("::std::num::NonZeroU64".to_string()),
    Kind::Integer { nonzero: true }
);
h!(
    c06_validate_float,
    TypeEntryDetails::Float("f64".to_string()),
    Kind::Float
);
h!(c06_validate_string, TypeEntryDetails::String, Kind::String);

/// P1e  an externally tagged enum of simple variants accepts a string default only if it
///      IS (exactly, case-sensitively) the wire name of one of its variants -- the value
///      renderer matches exactly and panics otherwise.
#[kani::proof]
#[kani::unwind(24)]
#[kani::stub(crate::MapType::new, crate::verif_common::stub_map_type_new)]
#[kani::stub(crate::util::sanitize, crate::verif_common::stub_sanitize)]
fn c06_validate_enum_external() {
    use crate::type_entry::verif_te_support::{mk_enum, mk_variant};
    let ts = empty_type_space();
    let entry = mk_enum(
        "E",
        EnumTagType::External,
        vec![
            mk_variant("Ab", VariantDetails::Simple),
            mk_variant("c", VariantDetails::Simple),
        ],
    );
    // one `any()` per byte: Kani's concrete playback does not record a whole-array `any()`
    let bytes: [u8; 2] = [kani::any(), kani::any()];
    let len: usize = kani::any();
    kani::assume(len <= 2);
    kani::assume(bytes[0] < 0x80 && bytes[1] < 0x80);
    let s = unsafe { core::str::from_utf8_unchecked(&bytes[..len]) };
    let value = Value::String(String::from(s));
    let result = entry.validate_value(&ts, &value);
    if result.is_ok() {
        kani::assert(
            s == "Ab" || s == "c",
            "[C06/P1e] a string that is not exactly a variant's wire name was accepted as an enum default",
        );
    }
    kani::cover!(result.is_ok(), "[must] a variant name is accepted");
    kani::cover!(result.is_err(), "[must] a non-member is rejected");
    core::mem::forget(result);
    core::mem::forget(value);
    core::mem::forget(entry);
    core::mem::forget(ts);
}

fn check_array_len(n: usize) {
    let mut ts = empty_type_space();
    ts.id_to_entry.insert(TypeId(3), TypeEntryDetails::Boolean.into());
    let entry: TypeEntry = TypeEntryDetails::Array(TypeId(3), 2).into();
    let mut items = Vec::new();
    let mut i = 0;
    while i < n {
        items.push(Value::Bool(i == 0));
        i += 1;
    }
    let value = Value::Array(items);
    let result = entry.validate_value(&ts, &value);
    kani::assert(
        result.is_err(),
        "[C06/P1a] a default with the wrong number of elements was accepted for a fixed-length array",
    );
    core::mem::forget(result);
    core::mem::forget(value);
    core::mem::forget(entry);
    core::mem::forget(ts);
}

#[kani::proof]
#[kani::unwind(24)]
#[kani::stub(crate::MapType::new, crate::verif_common::stub_map_type_new)]
#[kani::stub(crate::util::sanitize, crate::verif_common::stub_sanitize)]
fn c06_validate_array_too_long() {
    check_array_len(3)
}

#[kani::proof]
#[kani::unwind(24)]
#[kani::stub(crate::MapType::new, crate::verif_common::stub_map_type_new)]
#[kani::stub(crate::util::sanitize, crate::verif_common::stub_sanitize)]
fn c06_validate_array_too_short() {
    check_array_len(1)
}

#[kani::proof]
#[kani::unwind(24)]
#[kani::stub(crate::MapType::new, crate::verif_common::stub_map_type_new)]
#[kani::stub(crate::util::sanitize, crate::verif_common::stub_sanitize)]
fn canary_c06_validate() {
    let ts = empty_type_space();
    let entry: TypeEntry = TypeEntryDetails::Boolean.into();
    let value = Value::Bool(true);
    let result = entry.validate_value(&ts, &value);
    kani::assert(result.is_err(), "[CANARY] `true` is never a valid boolean default");
    core::mem::forget(result);
    core::mem::forget(value);
    core::mem::forget(entry);
    core::mem::forget(ts);
}
