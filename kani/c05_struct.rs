// @unit c05_struct property=C05 attach=typify-impl/src/structs.rs
// @h c05_closed_object_false tier=native bounded=object-without-properties
// @h c05_closed_object_true tier=native bounded=object-without-properties
// @h c05_closed_object_absent tier=native bounded=object-without-properties
// @native-canary canary_c05_struct
//
// C05 -- "closed objects": `additionalProperties: false` is the ONLY thing that makes a
// generated struct reject unknown members (`TypeSpace::struct_members`).
//
//   P2  additionalProperties is the schema `false` ==> deny_unknown_fields, for an object
//       with additionalProperties absent / `true` / `false` (one harness each: the JSON
//       discriminant is concrete, see DESIGN.md 7.5) and no properties, and no member is
//       invented
//
// Not proved: only the `absent` case terminates in CBMC (57 s); for `true` / `false` the
// comparison `a.as_ref() == &Schema::Bool(..)` walks the derived PartialEq of Schema through a
// Box and does not finish in 15 minutes. The three literal instances are executed natively
// against the real code instead (`tier=native`, a bounded stand-in, never counted as proved).
//
// Objects WITH properties go through struct_property -> id_for_schema (the conversion
// driver) and are not within reach.

use super::*;
use crate::verif_common::empty_type_space;

fn check(additional: Option<bool>) {
    let mut ts = empty_type_space();
    let validation = ObjectValidation {
        additional_properties: additional.map(|b| Box::new(Schema::Bool(b))),
        ..Default::default()
    };
    let r = ts.struct_members(None, &validation);
    match &r {
        Ok((props, deny)) => {
            // the C05 direction only: a closed object rejects unknown members (the converse --
            // an open object accepts them -- is property C02's)
            kani::assert(
                *deny || additional != Some(false),
                "[C05/P2] additionalProperties: false does not make the generated struct reject unknown members",
            );
            kani::assert(props.is_empty(), "[C05/P2] a member was invented for an object without properties");
        }
        Err(_) => kani::assert(false, "[C05/P2] an object schema without properties was rejected"),
    }
    core::mem::forget(r);
    core::mem::forget(validation);
    core::mem::forget(ts);
}

macro_rules! stubs {
    (fn $name:ident() $body:block) => {
        #[kani::proof]
        #[kani::unwind(16)]
        #[kani::stub(crate::MapType::new, crate::verif_common::stub_map_type_new)]
        #[kani::stub(crate::util::sanitize, crate::verif_common::stub_sanitize)]
        #[kani::stub(regress::Regex::new, crate::verif_common::stub_regex_new)]
        fn $name() $body
    };
}

stubs! {
    fn c05_closed_object_false() {
        check(Some(false))
    }
}

stubs! {
    fn c05_closed_object_true() {
        check(Some(true))
    }
}

stubs! {
    fn c05_closed_object_absent() {
        check(None)
    }
}

stubs! {
    fn canary_c05_struct() {
        let mut ts = empty_type_space();
        let validation = ObjectValidation {
            additional_properties: Some(Box::new(Schema::Bool(false))),
            ..Default::default()
        };
        let r = ts.struct_members(None, &validation);
        if let Ok((_, deny)) = &r {
            kani::assert(!*deny, "[CANARY] additionalProperties: false never closes the object");
        }
        core::mem::forget(r);
        core::mem::forget(validation);
        core::mem::forget(ts);
    }
}
