// @unit c10_integer property=C10 attach=typify-impl/src/convert.rs
// @h c10_int_q_none tier=quick
// @h c10_int_q_uint8 tier=quick
// @h c10_int_q_int64 tier=quick
// @h c10_int_q_uint64 tier=quick
// @h c10_int_q_int8 tier=quick
// @h c10_int_q_int16 tier=quick
// @h c10_int_q_uint16 tier=quick
// @h c10_int_q_int tier=quick
// @h c10_int_q_int32 tier=quick
// @h c10_int_q_uint tier=quick
// @h c10_int_q_uint32 tier=quick
// @h c10_int_q_excl_none tier=quick
// @h c10_int_q_excl_uint8 tier=quick
// @h c10_int_q_default_uint8 tier=quick
// @h c10_int_q_default_none tier=quick
// @h c10_int_q_bounds4_none tier=quick
// @h c10_int_q_bounds4_uint8 tier=quick
// @h c10_int_t_none tier=thorough
// @h c10_int_t_unknown tier=thorough
// @h c10_int_t_int8 tier=thorough
// @h c10_int_t_uint8 tier=thorough
// @h c10_int_t_int16 tier=thorough
// @h c10_int_t_uint16 tier=thorough
// @h c10_int_t_int tier=thorough
// @h c10_int_t_int32 tier=thorough
// @h c10_int_t_uint tier=thorough
// @h c10_int_t_uint32 tier=thorough
// @h c10_int_t_int64 tier=thorough
// @h c10_int_t_uint64 tier=thorough
// @canary canary_c10_integer
//
// C10 — integer type selection (`TypeSpace::convert_integer`).
//
// Contract, taken from the property statement and NOT from the code:
//
//   admitted(n)  :=  every present keyword holds for the integer n
//                    (minimum <= n, n <= maximum, exclusiveMinimum < n,
//                    n < exclusiveMaximum) and, when `format` is one of the
//                    recognised integer formats, n lies in that format's range.
//   domain(n)    :=  n in range(i64)  or  n in range(format)
//   P0  Ok(T)  ==> T is an integer entry whose name is one of the twelve
//                  documented Rust integer type names
//   P1  Ok(T) and admitted(n) and domain(n)  ==>  n in range(T)
//   P2  Ok(T), T a NonZero type  ==>  not admitted(0)
//   P3  numeric default d outside the schema bounds or outside the recognised
//       format's range  ==>  Err
//   P3x the same for the single input d == 2^63 (int64) / d == 2^64 (uint64), where the
//       code's f64 table cannot tell MAX from MAX + 1 (known finding)
//   P4  no panic, no arithmetic fault (Kani's built-in checks)
//
// `multipleOf`: when present only n = 0 is probed (0 is a multiple of every
// number), so the contract never demands more than the property.
//
// Inputs: the five numeric keywords and the default are symbolic over every
// finite f64 (JSON numbers are finite); n is a symbolic integer-valued f64.
// `format` is concrete per harness instance; the thirteen instances partition
// the format domain the same way `formats.iter().find(..)` does.

use super::*;
use crate::type_entry::{TypeEntry, TypeEntryDetails};
use crate::verif_common::{any_finite, any_opt_finite, empty_type_space};
use schemars::schema::{Metadata, NumberValidation};

const P63: f64 = 9223372036854775808.0; // 2^63
const P64: f64 = 18446744073709551616.0; // 2^64

/// `[lo, hi)` of a recognised JSON Schema integer format — the literal table
/// of the README / OpenAPI format registry, independent of the code's table.
fn format_range(format: Option<&str>) -> Option<(f64, f64)> {
    match format {
        Some("int8") => Some((-128.0, 128.0)),
        Some("uint8") => Some((0.0, 256.0)),
        Some("int16") => Some((-32768.0, 32768.0)),
        Some("uint16") => Some((0.0, 65536.0)),
        Some("int") | Some("int32") => Some((-2147483648.0, 2147483648.0)),
        Some("uint") | Some("uint32") => Some((0.0, 4294967296.0)),
        Some("int64") => Some((-P63, P63)),
        Some("uint64") => Some((0.0, P64)),
        _ => None,
    }
}

/// `[lo, hi)` of a Rust integer type by name, and whether zero is excluded.
fn rust_range(ty: &str) -> Option<(f64, f64, bool)> {
    match ty {
        "i8" => Some((-128.0, 128.0, false)),
        "u8" => Some((0.0, 256.0, false)),
        "i16" => Some((-32768.0, 32768.0, false)),
        "u16" => Some((0.0, 65536.0, false)),
        "i32" => Some((-2147483648.0, 2147483648.0, false)),
        "u32" => Some((0.0, 4294967296.0, false)),
        "i64" => Some((-P63, P63, false)),
        "u64" => Some((0.0, P64, false)),
        "::std::num::NonZeroU8" => Some((1.0, 256.0, true)),
        "::std::num::NonZeroU16" => Some((1.0, 65536.0, true)),
        "::std::num::NonZeroU32" => Some((1.0, 4294967296.0, true)),
        "::std::num::NonZeroU64" => Some((1.0, P64, true)),
        _ => None,
    }
}

struct Keywords {
    minimum: Option<f64>,
    maximum: Option<f64>,
    exclusive_minimum: Option<f64>,
    exclusive_maximum: Option<f64>,
    multiple_of: Option<f64>,
}

fn admitted(k: &Keywords, fr: Option<(f64, f64)>, n: f64) -> bool {
    k.minimum.map_or(true, |m| m <= n)
        && k.maximum.map_or(true, |m| n <= m)
        && k.exclusive_minimum.map_or(true, |m| m < n)
        && k.exclusive_maximum.map_or(true, |m| n < m)
        && fr.map_or(true, |(lo, hi)| lo <= n && n < hi)
        && (k.multiple_of.is_none() || n == 0.0)
}

/// `which` selects the symbolic keyword set: bit 0 minimum, bit 1 maximum,
/// bit 2 exclusiveMinimum, bit 3 exclusiveMaximum, bit 4 multipleOf,
/// bit 5 default. A keyword outside the set is absent.
fn check_integer(format: Option<&str>, which: u8) {
    let k = Keywords {
        minimum: if which & 1 != 0 { any_opt_finite() } else { None },
        maximum: if which & 2 != 0 { any_opt_finite() } else { None },
        exclusive_minimum: if which & 4 != 0 { any_opt_finite() } else { None },
        exclusive_maximum: if which & 8 != 0 { any_opt_finite() } else { None },
        multiple_of: if which & 16 != 0 { any_opt_finite() } else { None },
    };
    let default: Option<f64> = if which & 32 != 0 { any_opt_finite() } else { None };

    let validation = if k.minimum.is_none()
        && k.maximum.is_none()
        && k.exclusive_minimum.is_none()
        && k.exclusive_maximum.is_none()
        && k.multiple_of.is_none()
        && kani::any()
    {
        None
    } else {
        Some(Box::new(NumberValidation {
            multiple_of: k.multiple_of,
            maximum: k.maximum,
            exclusive_maximum: k.exclusive_maximum,
            minimum: k.minimum,
            exclusive_minimum: k.exclusive_minimum,
        }))
    };
    let metadata: Option<Box<Metadata>> = match default {
        None => None,
        Some(d) => Some(Box::new(Metadata {
            default: Some(serde_json::Value::Number(
                serde_json::Number::from_f64(d).unwrap(),
            )),
            ..Default::default()
        })),
    };
    let fmt_string: Option<String> = format.map(|s| s.to_string());
    let fr = format_range(format);

    let ts = empty_type_space();
    let result = ts.convert_integer(&metadata, &validation, &fmt_string);

    // a symbolic integer probe
    let n: f64 = any_finite();
    kani::assume(n == n.trunc());
    let in_domain = (-P63 <= n && n < P63) || fr.map_or(false, |(lo, hi)| lo <= n && n < hi);

    match &result {
        Ok((
            TypeEntry {
                details: TypeEntryDetails::Integer(name),
                ..
            },
            _,
        )) => {
            let rr = rust_range(name.as_str());
            kani::assert(
                rr.is_some(),
                "[C10/P0] result is not one of the documented integer type names",
            );
            if let Some((lo, hi, nonzero)) = rr {
                if admitted(&k, fr, n) && in_domain {
                    kani::assert(
                        lo <= n && n < hi,
                        "[C10/P1] an admitted integer is not representable in the chosen type",
                    );
                }
                if nonzero {
                    kani::assert(
                        !admitted(&k, fr, 0.0),
                        "[C10/P2] NonZero type chosen although zero is admitted",
                    );
                }
                kani::cover!(admitted(&k, fr, n) && in_domain, "[must] P1 antecedent");
                kani::cover!(nonzero, "[info] NonZero chosen");
            }
            if let Some(d) = default {
                let outside = k.minimum.map_or(false, |m| d < m)
                    || k.maximum.map_or(false, |m| d > m)
                    || k.exclusive_minimum.map_or(false, |m| d <= m)
                    || k.exclusive_maximum.map_or(false, |m| d >= m)
                    || fr.map_or(false, |(lo, hi)| d < lo || d >= hi);
                // the f64 image of a 64-bit type's MAX is MAX + 1 (2^63 / 2^64): a default equal
                // to it cannot be told from MAX itself in f64 arithmetic; that single input is
                // a separate obligation (P3x) so that it can be recorded as a known finding
                // without hiding any other P3 failure
                let at_rounded_max = fr.map_or(false, |(_, hi)| hi >= P63 && d == hi);
                if at_rounded_max {
                    kani::assert(
                        !outside,
                        "[C10/P3x] default equal to the f64 image of a 64-bit format's MAX + 1 (2^63 / 2^64) was accepted",
                    );
                } else {
                    kani::assert(
                        !outside,
                        "[C10/P3] numeric default outside the admitted range was accepted",
                    );
                }
            }
        }
        Ok(_) => {
            kani::assert(false, "[C10/P0] result is not an integer entry");
        }
        Err(_) => {
            kani::assert(
                default.is_some(),
                "[C10/P0] integer schema without default rejected",
            );
        }
    }
    kani::cover!(result.is_ok(), "[must] Ok reachable");
    kani::cover!(
        which & 32 == 0 || result.is_err(),
        "[must] Err reachable when a default is given"
    );

    core::mem::forget(result);
    core::mem::forget(ts);
    core::mem::forget(metadata);
    core::mem::forget(validation);
    core::mem::forget(fmt_string);
}

macro_rules! int_harness {
    ($name:ident, $fmt:expr, $which:expr) => {
        #[kani::proof]
        #[kani::unwind(26)]
        #[kani::stub(crate::MapType::new, crate::verif_common::stub_map_type_new)]
        fn $name() {
            check_integer($fmt, $which)
        }
    };
}

// quick tier: inclusive bounds only (bits 0,1), three format classes
int_harness!(c10_int_q_none, None, 0b000011);
int_harness!(c10_int_q_uint8, Some("uint8"), 0b000011);
int_harness!(c10_int_q_int64, Some("int64"), 0b000011);
int_harness!(c10_int_q_uint64, Some("uint64"), 0b000011);
// every row of the format table is exercised in the quick tier (inclusive bounds symbolic)
int_harness!(c10_int_q_int8, Some("int8"), 0b000011);
int_harness!(c10_int_q_int16, Some("int16"), 0b000011);
int_harness!(c10_int_q_uint16, Some("uint16"), 0b000011);
int_harness!(c10_int_q_int, Some("int"), 0b000011);
int_harness!(c10_int_q_int32, Some("int32"), 0b000011);
int_harness!(c10_int_q_uint, Some("uint"), 0b000011);
int_harness!(c10_int_q_uint32, Some("uint32"), 0b000011);
// quick tier: exclusive bounds only
int_harness!(c10_int_q_excl_none, None, 0b001100);
int_harness!(c10_int_q_excl_uint8, Some("uint8"), 0b001100);
// quick tier: default with inclusive bounds
int_harness!(c10_int_q_default_uint8, Some("uint8"), 0b100011);
int_harness!(c10_int_q_default_none, None, 0b100011);
// quick tier: all four bounds together (inclusive and exclusive interact)
int_harness!(c10_int_q_bounds4_none, None, 0b001111);
int_harness!(c10_int_q_bounds4_uint8, Some("uint8"), 0b001111);

// thorough tier: all six keywords symbolic, every format class
int_harness!(c10_int_t_none, None, 0b111111);
int_harness!(c10_int_t_unknown, Some("bogus"), 0b111111);
int_harness!(c10_int_t_int8, Some("int8"), 0b111111);
int_harness!(c10_int_t_uint8, Some("uint8"), 0b111111);
int_harness!(c10_int_t_int16, Some("int16"), 0b111111);
int_harness!(c10_int_t_uint16, Some("uint16"), 0b111111);
int_harness!(c10_int_t_int, Some("int"), 0b111111);
int_harness!(c10_int_t_int32, Some("int32"), 0b111111);
int_harness!(c10_int_t_uint, Some("uint"), 0b111111);
int_harness!(c10_int_t_uint32, Some("uint32"), 0b111111);
int_harness!(c10_int_t_int64, Some("int64"), 0b111111);
int_harness!(c10_int_t_uint64, Some("uint64"), 0b111111);

/// Canary: a deliberately false claim that must be refuted on every run, so a
/// harness pipeline that cannot fail is noticed.
#[kani::proof]
#[kani::unwind(26)]
#[kani::stub(crate::MapType::new, crate::verif_common::stub_map_type_new)]
fn canary_c10_integer() {
    let ts = empty_type_space();
    let fmt = Some("uint8".to_string());
    let result = ts.convert_integer(&None, &None, &fmt);
    match &result {
        Ok((
            TypeEntry {
                details: TypeEntryDetails::Integer(name),
                ..
            },
            _,
        )) => kani::assert(name != "u8", "[CANARY] uint8 never selects u8"),
        _ => {}
    }
    core::mem::forget(result);
    core::mem::forget(ts);
    core::mem::forget(fmt);
}
