// @unit c09_routing property=C09 attach=typify-impl/src/merge.rs
// @h c09_merge_schema_object_routes tier=both replay=none
// @canary canary_c09_routing
//
// C09 -- ROUTING of the pairwise merge (`merge_schema_object`): the field-wise merges whose
// contracts the other C09 units prove must each be given the corresponding keyword of BOTH
// operands, left operand first -- otherwise "permuting the subschemas does not change which
// instances are accepted" and "unsatisfiable => uninhabited" fail no matter how correct the
// leaves are (e.g. the `const` of the second operand never reaching merge_so_enum_values).
//
//   M1  each of merge_so_instance_type, merge_so_format, merge_so_number, merge_so_string,
//       merge_so_array, merge_so_object and merge_so_enum_values is called exactly once, with
//       (keyword of a, keyword of b) -- for enum values: (a.enum, a.const, b.enum, b.const) --
//       identified by ADDRESS inside the two operands, or else by VALUE (every keyword differs
//       between the two operands), so that handing over a clone is not reported
//   M2  the merged body handed to try_merge_with_subschemas carries exactly what the leaf
//       merges returned (format is marked), and both operands' subschemas are handed to
//       try_merge_with_subschemas, a's first. (The stub ends the merge at the second call:
//       the `assert_ne!` and the enum-value filter after it are outside this contract.)
//
// All eight callees are replaced by argument-recording stubs; the two operands carry every
// keyword, so every address is distinct.

use super::*;

static mut CALLS: [u8; 8] = [0; 8];
static mut OK_ARGS: [bool; 8] = [false; 8];
static mut A_ADDR: [usize; 9] = [0; 9];
static mut B_ADDR: [usize; 9] = [0; 9];
static mut FIRST_SUBSCHEMAS_OK: bool = false;
static mut SECOND_SUBSCHEMAS_OK: bool = false;
static mut BODY_OK: bool = false;

static mut A_PTR: *const SchemaObject = core::ptr::null();
static mut B_PTR: *const SchemaObject = core::ptr::null();

fn addr<T>(x: Option<&T>) -> usize {
    x.map_or(0, |p| p as *const T as usize)
}

/// the callee was handed THIS keyword of the operand: the very object (by address -- the only
/// case met on the unchanged tree), or an equal value (so that passing a clone, a harmless
/// refactoring, is not reported)
fn same<T: PartialEq>(got: Option<&T>, want_addr: usize, want: Option<&T>) -> bool {
    addr(got) == want_addr || (got.is_some() && got == want)
}

fn stub_instance_type(
    a: Option<&SingleOrVec<InstanceType>>,
    b: Option<&SingleOrVec<InstanceType>>,
) -> Result<Option<SingleOrVec<InstanceType>>, ()> {
    unsafe {
        CALLS[0] += 1;
        OK_ARGS[0] = same(a, A_ADDR[0], (*A_PTR).instance_type.as_ref()) && same(b, B_ADDR[0], (*B_PTR).instance_type.as_ref());
    }
    Ok(None)
}

fn stub_format(a: Option<&String>, b: Option<&String>) -> Result<Option<String>, ()> {
    unsafe {
        CALLS[1] += 1;
        OK_ARGS[1] = same(a, A_ADDR[1], (*A_PTR).format.as_ref()) && same(b, B_ADDR[1], (*B_PTR).format.as_ref());
    }
    Ok(Some(String::from("MARK")))
}

fn stub_number(
    a: Option<&NumberValidation>,
    b: Option<&NumberValidation>,
) -> Result<Option<Box<NumberValidation>>, ()> {
    unsafe {
        CALLS[2] += 1;
        OK_ARGS[2] = same(a, A_ADDR[2], (*A_PTR).number.as_deref()) && same(b, B_ADDR[2], (*B_PTR).number.as_deref());
    }
    Ok(None)
}

fn stub_string(
    a: Option<&StringValidation>,
    b: Option<&StringValidation>,
) -> Result<Option<Box<StringValidation>>, ()> {
    unsafe {
        CALLS[3] += 1;
        OK_ARGS[3] = same(a, A_ADDR[3], (*A_PTR).string.as_deref()) && same(b, B_ADDR[3], (*B_PTR).string.as_deref());
    }
    Ok(None)
}

fn stub_array(
    a: Option<&ArrayValidation>,
    b: Option<&ArrayValidation>,
    _defs: &BTreeMap<RefKey, Schema>,
) -> Result<Option<Box<ArrayValidation>>, ()> {
    unsafe {
        CALLS[4] += 1;
        OK_ARGS[4] = same(a, A_ADDR[4], (*A_PTR).array.as_deref()) && same(b, B_ADDR[4], (*B_PTR).array.as_deref());
    }
    Ok(None)
}

fn stub_object(
    a: Option<&ObjectValidation>,
    b: Option<&ObjectValidation>,
    _defs: &BTreeMap<RefKey, Schema>,
) -> Result<Option<Box<ObjectValidation>>, ()> {
    unsafe {
        CALLS[5] += 1;
        OK_ARGS[5] = same(a, A_ADDR[5], (*A_PTR).object.as_deref()) && same(b, B_ADDR[5], (*B_PTR).object.as_deref());
    }
    Ok(None)
}

fn stub_enum_values(
    a_enum: Option<&Vec<serde_json::Value>>,
    a_const: Option<&serde_json::Value>,
    b_enum: Option<&Vec<serde_json::Value>>,
    b_const: Option<&serde_json::Value>,
) -> Result<Option<Vec<serde_json::Value>>, ()> {
    unsafe {
        CALLS[6] += 1;
        OK_ARGS[6] = same(a_enum, A_ADDR[6], (*A_PTR).enum_values.as_ref())
            && same(a_const, A_ADDR[7], (*A_PTR).const_value.as_ref())
            && same(b_enum, B_ADDR[6], (*B_PTR).enum_values.as_ref())
            && same(b_const, B_ADDR[7], (*B_PTR).const_value.as_ref());
    }
    Ok(None)
}

fn stub_with_subschemas(
    schema_object: SchemaObject,
    maybe_subschemas: Option<&SubschemaValidation>,
    _defs: &BTreeMap<RefKey, Schema>,
) -> Result<SchemaObject, ()> {
    unsafe {
        CALLS[7] += 1;
        if CALLS[7] == 1 {
            FIRST_SUBSCHEMAS_OK = same(maybe_subschemas, A_ADDR[8], (*A_PTR).subschemas.as_deref());
            BODY_OK = schema_object.format.as_deref() == Some("MARK")
                && schema_object.instance_type.is_none()
                && schema_object.number.is_none()
                && schema_object.string.is_none()
                && schema_object.array.is_none()
                && schema_object.object.is_none()
                && schema_object.enum_values.is_none()
                && schema_object.const_value.is_none()
                && schema_object.subschemas.is_none()
                && schema_object.reference.is_none();
            Ok(schema_object)
        } else {
            // the second call ends the pairwise merge here: what follows it (the
            // `assert_ne!` against the `false` schema and the enum-value filter) drops
            // whole SchemaObjects, whose recursive serde_json::Value drop glue CBMC does
            // not finish unwinding -- and it is not part of the routing contract
            SECOND_SUBSCHEMAS_OK = same(maybe_subschemas, B_ADDR[8], (*B_PTR).subschemas.as_deref());
            core::mem::forget(schema_object);
            Err(())
        }
    }
}

/// every keyword differs between the two operands (tag 1 / tag 2), so that a keyword can also
/// be recognised by VALUE
fn operand(tag: u32) -> SchemaObject {
    let first = tag == 1;
    SchemaObject {
        metadata: None,
        instance_type: Some(SingleOrVec::Single(Box::new(if first { InstanceType::String } else { InstanceType::Integer }))),
        format: Some(String::from(if first { "fa" } else { "fb" })),
        enum_values: Some(vec![if first { serde_json::Value::Null } else { serde_json::Value::Bool(true) }]),
        const_value: Some(serde_json::Value::Bool(first)),
        subschemas: Some(Box::new(SubschemaValidation {
            all_of: if first { Some(Vec::new()) } else { None },
            any_of: if first { None } else { Some(Vec::new()) },
            ..Default::default()
        })),
        number: Some(Box::new(NumberValidation { multiple_of: Some(tag as f64), ..Default::default() })),
        string: Some(Box::new(StringValidation {
            max_length: Some(tag),
            min_length: None,
            pattern: None,
        })),
        array: Some(Box::new(ArrayValidation { max_items: Some(tag), ..Default::default() })),
        object: Some(Box::new(ObjectValidation { max_properties: Some(tag), ..Default::default() })),
        reference: None,
        extensions: Default::default(),
    }
}

fn addresses(o: &SchemaObject) -> [usize; 9] {
    [
        addr(o.instance_type.as_ref()),
        addr(o.format.as_ref()),
        addr(o.number.as_deref()),
        addr(o.string.as_deref()),
        addr(o.array.as_deref()),
        addr(o.object.as_deref()),
        addr(o.enum_values.as_ref()),
        addr(o.const_value.as_ref()),
        addr(o.subschemas.as_deref()),
    ]
}

macro_rules! stubs {
    (fn $name:ident() $body:block) => {
        #[kani::proof]
        #[kani::unwind(6)]
        #[kani::stub(merge_so_instance_type, stub_instance_type)]
        #[kani::stub(merge_so_format, stub_format)]
        #[kani::stub(merge_so_number, stub_number)]
        #[kani::stub(merge_so_string, stub_string)]
        #[kani::stub(merge_so_array, stub_array)]
        #[kani::stub(merge_so_object, stub_object)]
        #[kani::stub(merge_so_enum_values, stub_enum_values)]
        #[kani::stub(try_merge_with_subschemas, stub_with_subschemas)]
        fn $name() $body
    };
}

stubs! {
    fn c09_merge_schema_object_routes() {
        let a = operand(1);
        let b = operand(2);
        unsafe {
            A_ADDR = addresses(&a);
            B_ADDR = addresses(&b);
            A_PTR = &a;
            B_PTR = &b;
        }
        let defs: BTreeMap<RefKey, Schema> = BTreeMap::new();
        let r = merge_schema_object(&a, &b, &defs);
        unsafe {
            kani::assert(
                CALLS[0] == 1 && CALLS[1] == 1 && CALLS[2] == 1 && CALLS[3] == 1 && CALLS[4] == 1 && CALLS[5] == 1 && CALLS[6] == 1,
                "[C09/M1] a field-wise merge is not called exactly once by the pairwise merge",
            );
            kani::assert(
                OK_ARGS[0] && OK_ARGS[1] && OK_ARGS[2] && OK_ARGS[3] && OK_ARGS[4] && OK_ARGS[5],
                "[C09/M1] a field-wise merge is not given the corresponding keyword of BOTH operands, left operand first",
            );
            kani::assert(
                OK_ARGS[6],
                "[C09/M1] the enum/const merge is not given (a.enum, a.const, b.enum, b.const)",
            );
            kani::assert(
                CALLS[7] == 2 && FIRST_SUBSCHEMAS_OK && SECOND_SUBSCHEMAS_OK,
                "[C09/M2] the operands' subschemas are not both merged in (a's first, then b's)",
            );
            kani::assert(
                BODY_OK,
                "[C09/M2] the merged body does not carry exactly what the field-wise merges returned",
            );
        }
        kani::assert(r.is_err(), "[TOOL] the recording stub ends the merge at the second subschema merge");
        core::mem::forget(r);
        core::mem::forget(a);
        core::mem::forget(b);
        core::mem::forget(defs);
    }
}

stubs! {
    fn canary_c09_routing() {
        let a = operand(1);
        let b = operand(2);
        unsafe {
            A_ADDR = addresses(&a);
            B_ADDR = addresses(&b);
            A_PTR = &a;
            B_PTR = &b;
        }
        let defs: BTreeMap<RefKey, Schema> = BTreeMap::new();
        let r = merge_schema_object(&a, &b, &defs);
        unsafe {
            kani::assert(CALLS[6] == 0, "[CANARY] merge_so_enum_values is never called");
        }
        core::mem::forget(r);
        core::mem::forget(a);
        core::mem::forget(b);
        core::mem::forget(defs);
    }
}
