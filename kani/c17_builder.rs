// @unit c17_builder property=C17 attach=typify-impl/src/lib.rs
// @needs te_support
// @h c17_builder_off tier=both
// @h c17_builder_newtype tier=both
// @h c17_builder_enum tier=both
// @h c17_builder_builtin tier=both
// @canary canary_c17_builder
//
// C17 -- "builder() is Some exactly when a builder type is emitted" (Type::builder, lib.rs).
//
//   Q2  Type::builder() is None when struct builders are not enabled, and None for every kind
//       but Struct (output_struct is the only emitter of a builder type). The Struct arm
//       itself builds a token stream (format_ident! / quote!) and is NOT decided.

use super::*;
use crate::type_entry::{EnumTagType, TypeEntryNewtypeConstraints};
use crate::verif_common::empty_type_space;
use crate::type_entry::verif_te_support::{mk_enum, mk_newtype, mk_struct};

/// Verification-only stand-ins for quote's runtime helpers (building a real proc_macro2::Ident
/// makes kani-compiler crash, see DESIGN 7.4): they are reachable only from the Struct arm of
/// builder(), which none of these harnesses executes on a tree where Q2 holds.
fn stub_mk_ident(_id: &str, _span: Option<proc_macro2::Span>) -> proc_macro2::Ident {
    #[allow(invalid_value)]
    unsafe {
        core::mem::MaybeUninit::uninit().assume_init()
    }
}

fn stub_push_ident(_tokens: &mut TokenStream, _s: &str) {}

fn stub_push_colon2(_tokens: &mut TokenStream) {}

macro_rules! stubs {
    (fn $name:ident() $body:block) => {
        #[kani::proof]
        #[kani::unwind(8)]
        #[kani::stub(crate::MapType::new, crate::verif_common::stub_map_type_new)]
        #[kani::stub(crate::util::sanitize, crate::verif_common::stub_sanitize)]
        #[kani::stub(::quote::__private::mk_ident, stub_mk_ident)]
        #[kani::stub(::quote::__private::push_ident, stub_push_ident)]
        #[kani::stub(::quote::__private::push_colon2, stub_push_colon2)]
        fn $name() $body
    };
}

fn check_builder_none(entry: TypeEntry, struct_builder: bool, with_mod: bool) {
    let mut space = empty_type_space();
    space.settings.struct_builder = struct_builder;
    if with_mod {
        space.settings.type_mod = Some("types".to_string());
    }
    let ty = Type {
        type_space: &space,
        type_entry: &entry,
    };
    let b = ty.builder();
    kani::assert(
        b.is_none(),
        "[C17/Q2] builder() names a builder type although none is emitted for this type",
    );
    core::mem::forget(b);
    core::mem::forget(entry);
    core::mem::forget(space);
}

stubs! {
    fn c17_builder_off() {
        // struct builders not enabled: no builder for a struct either
        check_builder_none(mk_struct("S", Vec::new(), false), false, kani::any())
    }
}

stubs! {
    fn c17_builder_newtype() {
        check_builder_none(
            mk_newtype("N", TypeId(kani::any()), TypeEntryNewtypeConstraints::None),
            true,
            kani::any(),
        )
    }
}

stubs! {
    fn c17_builder_enum() {
        check_builder_none(mk_enum("E", EnumTagType::External, Vec::new()), true, kani::any())
    }
}

stubs! {
    fn c17_builder_builtin() {
        let k: u8 = kani::any();
        let entry: TypeEntry = match k {
            0 => TypeEntryDetails::Boolean.into(),
            1 => TypeEntryDetails::String.into(),
            2 => TypeEntryDetails::Unit.into(),
            3 => TypeEntryDetails::Option(TypeId(kani::any())).into(),
            4 => TypeEntryDetails::Vec(TypeId(kani::any())).into(),
            _ => TypeEntryDetails::Integer("u8".to_string()).into(),
        };
        check_builder_none(entry, true, kani::any())
    }
}

stubs! {
    fn canary_c17_builder() {
        let entry: TypeEntry = TypeEntryDetails::Boolean.into();
        let space = empty_type_space();
        let ty = Type {
            type_space: &space,
            type_entry: &entry,
        };
        let b = ty.builder();
        kani::assert(b.is_some(), "[CANARY] bool has a builder");
        core::mem::forget(b);
        core::mem::forget(entry);
        core::mem::forget(space);
    }
}
