// @unit c09_instance_vec property=C09 attach=typify-impl/src/merge.rs
// @needs c09_merge
// @h c09_instance_vec_literals tier=native bounded=5-literal-pairs-of-two-element-type-arrays,both-orders
// @native-canary canary_c09_instance_vec
//
// C09 -- the array x array arm of merge_so_instance_type (`"type": [..]` on both sides). The arm
// builds B-tree sets: CBMC does not finish it even on literal two-element arrays (four harnesses,
// 900 s each). BOUNDED STAND-IN (`tier=native`): the same obligations P1-P4 as c09_merge (seven
// value classes, each pair merged in BOTH orders) on five literal pairs, executed natively:
//   [integer, string] x [number, string]   -> integral numbers and strings survive
//   [number, null]    x [integer, null]    -> the same with the numeric kinds swapped
//   [integer, boolean] x [number, string]  -> only integral numbers are common
//   [number, boolean] x [integer, string]  -> the same, number on the left
//   [null, string]    x [boolean, object]  -> disjoint: Err

use super::verif_c09_merge::check_instance;
use super::*;

fn tv(a: InstanceType, b: InstanceType) -> Option<SingleOrVec<InstanceType>> {
    Some(SingleOrVec::Vec(vec![a, b]))
}

#[kani::proof]
fn c09_instance_vec_literals() {
    use InstanceType::*;
    check_instance(tv(Integer, String), tv(Number, String));
    check_instance(tv(Number, Null), tv(Integer, Null));
    check_instance(tv(Integer, Boolean), tv(Number, String));
    check_instance(tv(Number, Boolean), tv(Integer, String));
    check_instance(tv(Null, String), tv(Boolean, Object));
}

#[kani::proof]
fn canary_c09_instance_vec() {
    let a = tv(InstanceType::Null, InstanceType::String);
    let r = merge_so_instance_type(a.as_ref(), a.as_ref());
    kani::assert(r.is_err(), "[CANARY] equal type arrays never merge");
}
