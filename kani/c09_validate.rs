// @unit c09_validate property=C09 attach=typify-impl/src/validate.rs
// @h c09_check_instance_scalars tier=both
// @h c09_check_instance_numbers tier=both
// @h c09_check_instance_containers tier=both
// @h c09_instance_type_list tier=both bounded=type-arrays-of-2
// @canary canary_c09_validate
//
// C09 -- the reduced validator that filters the enum values of a merged schema
// (`validate::check_instance`, `schema_object_value_validate_instance_type`).
//
// "A type generated from allOf accepts every instance that is valid under all
// subschemas": a merged enum keeps a value only if this validator accepts it, so
//
//   P9   check_instance(T, v) is Ok  <==>  v's JSON class is admitted by T
//        (null, boolean, object, array, string; `number` admits every number; `integer`
//        admits the integral ones)
//   P10  a list of types accepts v  <==>  one of its members does
//
// Values: null, bool, every u64, every negative i64, every finite non-integral f64, "" and
// a non-empty string, [] and {}. (An integral f64 such as 5.0 is left out: JSON Schema
// calls it an integer, serde_json calls it a float; the property does not settle it.)

use super::*;
use crate::verif_common::any_finite;

#[derive(Clone, Copy, PartialEq)]
enum Class {
    Null,
    Bool,
    Object,
    Array,
    String,
    Integral,
    NonIntegral,
}

fn any_instance_type() -> InstanceType {
    let k: u8 = kani::any();
    match k {
        0 => InstanceType::Null,
        1 => InstanceType::Boolean,
        2 => InstanceType::Object,
        3 => InstanceType::Array,
        4 => InstanceType::Number,
        5 => InstanceType::String,
        _ => InstanceType::Integer,
    }
}

fn admits_type(t: &InstanceType, c: Class) -> bool {
    match t {
        InstanceType::Null => c == Class::Null,
        InstanceType::Boolean => c == Class::Bool,
        InstanceType::Object => c == Class::Object,
        InstanceType::Array => c == Class::Array,
        InstanceType::String => c == Class::String,
        InstanceType::Number => c == Class::Integral || c == Class::NonIntegral,
        InstanceType::Integer => c == Class::Integral,
    }
}

/// group 0: null / bool / strings; 1: numbers; 2: containers
fn any_value(group: u8) -> (Value, Class) {
    let sel: u8 = kani::any();
    match group {
        0 => match sel {
            0 => (Value::Null, Class::Null),
            1 => (Value::Bool(kani::any()), Class::Bool),
            2 => (Value::String(String::new()), Class::String),
            _ => (Value::String(String::from("x")), Class::String),
        },
        1 => match sel {
            0 => {
                let u: u64 = kani::any();
                (Value::Number(serde_json::Number::from(u)), Class::Integral)
            }
            1 => {
                let i: i64 = kani::any();
                kani::assume(i < 0);
                (Value::Number(serde_json::Number::from(i)), Class::Integral)
            }
            _ => {
                let f = any_finite();
                kani::assume(f != f.trunc());
                (
                    Value::Number(serde_json::Number::from_f64(f).unwrap()),
                    Class::NonIntegral,
                )
            }
        },
        _ => {
            if sel == 0 {
                (Value::Array(Vec::new()), Class::Array)
            } else {
                (Value::Object(serde_json::Map::new()), Class::Object)
            }
        }
    }
}

fn check(group: u8) {
    let it = any_instance_type();
    let (v, c) = any_value(group);
    let r = check_instance(&it, &v);
    kani::assert(
        r.is_ok() == admits_type(&it, c),
        "[C09/P9] the enum-value validator disagrees with JSON Schema on a value's type",
    );
    kani::cover!(r.is_ok(), "[must] an accepted value");
    kani::cover!(r.is_err(), "[must] a rejected value");
    core::mem::forget(r);
    core::mem::forget(v);
}

#[kani::proof]
#[kani::unwind(12)]
fn c09_check_instance_scalars() {
    check(0)
}

#[kani::proof]
#[kani::unwind(12)]
fn c09_check_instance_numbers() {
    check(1)
}

#[kani::proof]
#[kani::unwind(12)]
fn c09_check_instance_containers() {
    check(2)
}

#[kani::proof]
#[kani::unwind(12)]
fn c09_instance_type_list() {
    let t1 = any_instance_type();
    let t2 = any_instance_type();
    let (v, c) = any_value(1);
    let want = admits_type(&t1, c) || admits_type(&t2, c);
    let list = SingleOrVec::Vec(vec![t1, t2]);
    let r = schema_object_value_validate_instance_type(Some(&list), &v);
    kani::assert(
        r.is_ok() == want,
        "[C09/P10] a list of types does not accept exactly what one of its members accepts",
    );
    let none = schema_object_value_validate_instance_type(None, &v);
    kani::assert(none.is_ok(), "[C09/P10] an absent type restriction rejected a value");
    kani::cover!(r.is_ok(), "[must] an accepted value");
    kani::cover!(r.is_err(), "[must] a rejected value");
    core::mem::forget(r);
    core::mem::forget(none);
    core::mem::forget(list);
    core::mem::forget(v);
}

#[kani::proof]
#[kani::unwind(12)]
fn canary_c09_validate() {
    let v = Value::Bool(true);
    let r = check_instance(&InstanceType::Boolean, &v);
    kani::assert(r.is_err(), "[CANARY] `true` is never a boolean");
    core::mem::forget(r);
    core::mem::forget(v);
}
