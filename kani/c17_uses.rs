// @unit c17_uses property=C17 attach=typify-impl/src/convert.rs
// @h c17_uses_serde_json_permissive tier=both
// @h c17_uses_serde_json_array_of_any tier=both
// @h c17_uses_serde_json_array_no_items tier=both
// @canary canary_c17_uses
//
// C17 -- "every external crate whose paths appear in the output has its uses_* flag set":
// the conversion paths that create a `::serde_json::Value` entry.
//
//   F2  convert_permissive, convert_array_of_any and convert_array for an array schema
//       WITHOUT item schemas (any minItems / maxItems / uniqueItems, incl. the fixed-length
//       arm) return Ok only with uses_serde_json set -- every one of these results contains
//       a serde_json::Value element.

use super::*;
use crate::type_entry::{TypeEntry, TypeEntryDetails};
use crate::verif_common::empty_type_space;

macro_rules! stubs {
    (fn $name:ident() $body:block) => {
        #[kani::proof]
        #[kani::unwind(24)]
        #[kani::stub(crate::MapType::new, crate::verif_common::stub_map_type_new)]
        #[kani::stub(crate::util::sanitize, crate::verif_common::stub_sanitize)]
        #[kani::stub(regress::Regex::new, crate::verif_common::stub_regex_new)]
        fn $name() $body
    };
}

stubs! {
    fn c17_uses_serde_json_permissive() {
        let mut ts = empty_type_space();
        let metadata: Option<Box<Metadata>> = None;
        let r = ts.convert_permissive(&metadata);
        match &r {
            Ok((TypeEntry { details: TypeEntryDetails::JsonValue, .. }, _)) => kani::assert(
                ts.uses_serde_json,
                "[C17/F2] serde_json::Value chosen without uses_serde_json",
            ),
            _ => kani::assert(false, "[C17/F2] the permissive schema did not become serde_json::Value"),
        }
        core::mem::forget(r);
        core::mem::forget(ts);
    }
}

stubs! {
    fn c17_uses_serde_json_array_of_any() {
        let mut ts = empty_type_space();
        let metadata: Option<Box<Metadata>> = None;
        let r = ts.convert_array_of_any(&metadata);
        match &r {
            Ok((TypeEntry { details: TypeEntryDetails::Vec(_), .. }, _)) => kani::assert(
                ts.uses_serde_json,
                "[C17/F2] Vec<serde_json::Value> chosen without uses_serde_json",
            ),
            _ => kani::assert(false, "[C17/F2] array of anything did not become a Vec"),
        }
        core::mem::forget(r);
        core::mem::forget(ts);
    }
}

stubs! {
    fn c17_uses_serde_json_array_no_items() {
        let mut ts = empty_type_space();
        let metadata: Option<Box<Metadata>> = None;
        let validation = ArrayValidation {
            items: None,
            additional_items: None,
            max_items: kani::any(),
            min_items: kani::any(),
            unique_items: kani::any(),
            contains: None,
        };
        let r = ts.convert_array(Name::Unknown, &metadata, &validation);
        if let Ok((TypeEntry { details, .. }, _)) = &r {
            kani::assert(
                matches!(
                    details,
                    TypeEntryDetails::Vec(_) | TypeEntryDetails::Set(_) | TypeEntryDetails::Array(_, _)
                ),
                "[C17/F2] an array schema without items did not become Vec / Set / fixed array",
            );
            kani::assert(
                ts.uses_serde_json,
                "[C17/F2] array of serde_json::Value chosen without uses_serde_json",
            );
        }
        kani::cover!(r.is_ok(), "[must] conversion succeeds");
        core::mem::forget(r);
        core::mem::forget(ts);
        core::mem::forget(validation);
    }
}

stubs! {
    fn canary_c17_uses() {
        let mut ts = empty_type_space();
        let metadata: Option<Box<Metadata>> = None;
        let r = ts.convert_permissive(&metadata);
        kani::assert(!ts.uses_serde_json, "[CANARY] the permissive schema never sets uses_serde_json");
        core::mem::forget(r);
        core::mem::forget(ts);
    }
}
