// @unit te_support attach=typify-impl/src/type_entry.rs
//
// Constructors for the named entry kinds, attached to type_entry.rs because
// `SchemaWrapper`'s field is private to that module. Trusted harness support; no contract.

#![allow(dead_code)]

use super::*;

pub(crate) fn mk_struct(name: &str, properties: Vec<StructProperty>, deny_unknown_fields: bool) -> TypeEntry {
    TypeEntryDetails::Struct(TypeEntryStruct {
        name: name.to_string(),
        rename: None,
        description: None,
        default: None,
        properties,
        deny_unknown_fields,
        schema: SchemaWrapper(Schema::Bool(true)),
    })
    .into()
}

pub(crate) fn mk_prop(name: &str, type_id: TypeId, state: StructPropertyState) -> StructProperty {
    StructProperty {
        name: name.to_string(),
        rename: StructPropertyRename::None,
        state,
        description: None,
        type_id,
    }
}

pub(crate) fn mk_enum(name: &str, tag_type: EnumTagType, variants: Vec<Variant>) -> TypeEntry {
    TypeEntryDetails::Enum(TypeEntryEnum {
        name: name.to_string(),
        rename: None,
        description: None,
        default: None,
        tag_type,
        variants,
        deny_unknown_fields: false,
        bespoke_impls: Default::default(),
        schema: SchemaWrapper(Schema::Bool(true)),
    })
    .into()
}

pub(crate) fn mk_variant(raw_name: &str, details: VariantDetails) -> Variant {
    Variant {
        raw_name: raw_name.to_string(),
        ident_name: Some(raw_name.to_string()),
        description: None,
        details,
    }
}

pub(crate) fn mk_newtype(name: &str, type_id: TypeId, constraints: TypeEntryNewtypeConstraints) -> TypeEntry {
    TypeEntryDetails::Newtype(TypeEntryNewtype {
        name: name.to_string(),
        rename: None,
        description: None,
        default: None,
        type_id,
        constraints,
        schema: SchemaWrapper(Schema::Bool(true)),
    })
    .into()
}

pub(crate) fn native_impls(native: &TypeEntryNative) -> &Vec<TypeSpaceImpl> {
    &native.impls
}
