// @unit c06_value property=C06 attach=typify-impl/src/value.rs
// @needs te_support
// @h c06_output_value_scope_literals tier=native bounded=14-literal-type-shapes-with-one-default-each
// @native-canary canary_c06_value
//
// C06 -- "a default ... is never deferred ... to uncompilable code": `TypeEntry::output_value`,
// which renders a schema default as a Rust expression. Default functions live in
// `mod defaults`, so every generated type in the expression must be named through the scope
// handed to output_value (`super::`), at every depth.
//
//   V1  output_value(v, scope) is output_value(v, <empty scope>) in which every occurrence of
//       a generated (named) type N reads `scope N` -- through Option / Box / Vec / Set / Map /
//       tuple / fixed array / struct members / enum payloads / newtypes
//   V2  both render (Some) for a default that is valid for the type
//
// output_value builds proc_macro2 token streams (kani-compiler crashes on the identifier
// constructors, Verus has no model). BOUNDED STAND-IN (`tier=native`): the literal shapes below
// are executed natively against the real function, never counted as proved. The oracle is
// relational (scope vs. no scope), so it does not restate the templates.

use super::*;
use crate::type_entry::verif_te_support::{mk_enum, mk_newtype, mk_prop, mk_struct, mk_variant};
use crate::type_entry::{StructPropertyState, TypeEntryNewtypeConstraints};
use crate::TypeId;
use serde_json::json;

fn space() -> TypeSpace {
    let mut ts = TypeSpace::default();
    let req = || StructPropertyState::Required;
    let entries: Vec<TypeEntry> = vec![
        /* 0 */ mk_struct("Sxq", vec![mk_prop("a", TypeId(3), req())], false),
        /* 1 */ mk_enum("Exq", EnumTagType::External, vec![mk_variant("V", VariantDetails::Simple), mk_variant("W", VariantDetails::Item(TypeId(0)))]),
        /* 2 */ mk_newtype("Nxq", TypeId(4), TypeEntryNewtypeConstraints::None),
        /* 3 */ TypeEntryDetails::Boolean.into(),
        /* 4 */ TypeEntryDetails::String.into(),
        /* 5 */ TypeEntryDetails::Option(TypeId(0)).into(),
        /* 6 */ TypeEntryDetails::Box(TypeId(1)).into(),
        /* 7 */ TypeEntryDetails::Vec(TypeId(2)).into(),
        /* 8 */ TypeEntryDetails::Set(TypeId(0)).into(),
        /* 9 */ TypeEntryDetails::Map(TypeId(4), TypeId(0)).into(),
        /* 10 */ TypeEntryDetails::Map(TypeId(4), TypeId(1)).into(),
        /* 11 */ TypeEntryDetails::Tuple(vec![TypeId(0), TypeId(3)]).into(),
        /* 12 */ TypeEntryDetails::Array(TypeId(0), 2).into(),
        /* 13 */ mk_struct("Txq", vec![mk_prop("inner", TypeId(0), req()), mk_prop("m", TypeId(9), req())], false),
        /* 14 */ TypeEntryDetails::Vec(TypeId(10)).into(),
    ];
    let n = entries.len() as u64;
    for (i, e) in entries.into_iter().enumerate() {
        ts.id_to_entry.insert(TypeId(i as u64), e);
    }
    ts.next_id = n;
    ts
}

fn prefixed(plain: &str) -> String {
    let mut out = plain.to_string();
    for name in ["Sxq", "Exq", "Nxq", "Txq"] {
        out = out.replace(name, &format!("zzscope :: {}", name));
    }
    out
}

fn render(ts: &TypeSpace, id: u64, value: &serde_json::Value, scope: &TokenStream) -> Option<String> {
    ts.id_to_entry.get(&TypeId(id)).unwrap().output_value(ts, value, scope).map(|t| t.to_string())
}

fn check(ts: &TypeSpace, id: u64, value: serde_json::Value, what: &'static str) {
    let plain = render(ts, id, &value, &quote! {});
    let scoped = render(ts, id, &value, &quote! { zzscope:: });
    match (plain, scoped) {
        (Some(plain), Some(scoped)) => {
            if scoped != prefixed(&plain) {
                panic!(
                    "[C06/V1] a rendered default does not name every generated type through the scope of the defaults module: {}: {:?} vs {:?}",
                    what, scoped, plain
                );
            }
        }
        _ => panic!("[C06/V2] a valid default is not rendered: {}", what),
    }
}

#[kani::proof]
fn c06_output_value_scope_literals() {
    let ts = space();
    let s = || json!({"a": true});
    check(&ts, 0, s(), "struct");
    check(&ts, 1, json!("V"), "simple variant");
    check(&ts, 1, json!({"W": {"a": false}}), "variant with a struct payload");
    check(&ts, 2, json!("hi"), "newtype over a string");
    check(&ts, 5, s(), "Option of a struct");
    check(&ts, 6, json!("V"), "Box of an enum");
    check(&ts, 7, json!(["x", "y"]), "Vec of newtypes");
    check(&ts, 8, json!([s()]), "set of structs");
    check(&ts, 9, json!({"k": s()}), "map with struct values");
    check(&ts, 10, json!({"k": "V", "l": {"W": s()}}), "map with enum values");
    check(&ts, 11, json!([s(), true]), "tuple (struct, bool)");
    check(&ts, 12, json!([s(), s()]), "fixed array of structs");
    check(&ts, 13, json!({"inner": s(), "m": {"k": s()}}), "struct with a struct member and a map member");
    check(&ts, 14, json!([{"k": "V"}]), "Vec of maps of enums");
}

#[kani::proof]
fn canary_c06_value() {
    let ts = space();
    let scoped = render(&ts, 0, &json!({"a": true}), &quote! { zzscope:: });
    let plain = render(&ts, 0, &json!({"a": true}), &quote! {});
    kani::assert(scoped == plain, "[CANARY] the scope never shows in a rendered default");
}
