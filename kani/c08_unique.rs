// @unit c08_unique property=C08 attach=typify-impl/src/util.rs
// @h c08_unique_literals tier=off bounded=enumerated-literal-name-lists-of-3
// @canary canary_c08_unique
//
// C08 -- "identifiers ... distinct within their scope": the helper that decides whether the
// variant identifiers of an enum are pairwise distinct (`util::unique`, behind
// `variants_unique`, which drives the X-substitution fallback and the final panic).
//
//   P3  unique(items) == (the items are pairwise distinct) -- also when the equal items are
//       NOT adjacent
//
// RESULT: out of reach. `unique` uses a HashSet (RandomState, SipHash); CBMC times out (15 min)
// even on two literal items. Kept with tier=off; NOT part of the C08 check.

use super::*;

fn check(a: &str, b: &str, c: &str, want: bool) {
    let got = unique([a, b, c]);
    kani::assert(
        got == want,
        "[C08/P3] unique() misjudges whether identifiers are pairwise distinct",
    );
}

#[kani::proof]
#[kani::unwind(40)]
fn c08_unique_literals() {
    let k: u8 = kani::any();
    match k {
        0 => check("FooBar", "Other", "Baz", true),
        1 => check("FooBar", "FooBar", "Other", false),
        2 => check("FooBar", "Other", "FooBar", false),
        3 => check("Other", "FooBar", "FooBar", false),
        _ => check("A", "a", "B", true),
    }
    kani::cover!(k == 2, "[must] the non-adjacent duplicate is probed");
}

#[kani::proof]
#[kani::unwind(40)]
fn canary_c08_unique() {
    kani::assert(!unique(["x", "y"]), "[CANARY] distinct items are never unique");
}
