// @unit c08_unique property=C08 attach=typify-impl/src/util.rs
// @h c08_unique_literals tier=native bounded=enumerated-literal-name-lists-of-3
// @native-canary canary_c08_unique
//
// C08 -- "identifiers ... distinct within their scope": the helper that decides whether the
// variant identifiers of an enum are pairwise distinct (`util::unique`, behind
// `variants_unique`, which drives the X-substitution fallback and the final panic).
//
//   P3  unique(items) == (the items are pairwise distinct) -- also when the equal items are
//       NOT adjacent
//
// `unique` uses a HashSet (RandomState, SipHash): CBMC times out (15 min) even on two literal
// items. BOUNDED STAND-IN: the five literal lists below are executed natively against the real
// function (tier=native), never counted as proved.

use super::*;

fn check(a: &str, b: &str, c: &str, want: bool) {
    let got = unique([a, b, c]);
    kani::assert(
        got == want,
        "[C08/P3] unique() misjudges whether identifiers are pairwise distinct",
    );
}

#[kani::proof]
#[kani::unwind(40)]
fn c08_unique_literals() {
    check("FooBar", "Other", "Baz", true);
    check("FooBar", "FooBar", "Other", false);
    check("FooBar", "Other", "FooBar", false);
    check("Other", "FooBar", "FooBar", false);
    check("A", "a", "B", true);
}

#[kani::proof]
#[kani::unwind(40)]
fn canary_c08_unique() {
    kani::assert(!unique(["x", "y"]), "[CANARY] distinct items are never unique");
}
