// @unit c15_access attach=typify-impl/src/lib.rs
// @pub
//
// Read-only accessors to `TypeSpaceSettings` for the C15 settings-mapping harness, which
// lives in another crate of the scratch workspace (verif-c15). Trusted harness support.

#![allow(missing_docs, dead_code)]

use super::*;

/// verification-only stand-in for `MapType::new` (see kani/common.rs)
#[allow(invalid_value)]
pub fn stub_map_type_new(_s: &str) -> MapType {
    unsafe { core::mem::MaybeUninit::<MapType>::uninit().assume_init() }
}

/// 0 = absent, 1 = Any, 2 = Never, 3 = Version
pub fn crate_version_kind(s: &TypeSpaceSettings, name: &str) -> u8 {
    match s.crates.get(name) {
        None => 0,
        Some(CrateSpec { version: CrateVers::Any, .. }) => 1,
        Some(CrateSpec { version: CrateVers::Never, .. }) => 2,
        Some(CrateSpec { version: CrateVers::Version(_), .. }) => 3,
    }
}

pub fn crate_rename<'a>(s: &'a TypeSpaceSettings, name: &str) -> Option<&'a String> {
    s.crates.get(name).and_then(|c| c.rename.as_ref())
}

pub fn crate_count(s: &TypeSpaceSettings) -> usize {
    s.crates.len()
}

pub fn struct_builder(s: &TypeSpaceSettings) -> bool {
    s.struct_builder
}

pub fn extra_derives(s: &TypeSpaceSettings) -> &Vec<String> {
    &s.extra_derives
}

/// 0 = Generate, 1 = Allow, 2 = Deny
pub fn unknown_policy(s: &TypeSpaceSettings) -> u8 {
    match s.unknown_crates {
        UnknownPolicy::Generate => 0,
        UnknownPolicy::Allow => 1,
        UnknownPolicy::Deny => 2,
    }
}
