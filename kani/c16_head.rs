// @unit c16_head property=C16 attach=typify-impl/src/lib.rs
// @h c16_head_known_key tier=native bounded=batch-of-1-definition,1-known-reference-key,literal-next_id
// @h c16_head_fresh_key tier=native bounded=batch-of-1-definition,literal-next_id
// @h c16_head_empty_batch tier=native bounded=literal-next_id
// @h c16_head_empty_batch_known_key tier=native bounded=literal-next_id
// @native-canary canary_c16_head
//
// C16 -- identifier pre-assignment for a batch of references (the first statements of
// `add_ref_types_impl`, extracted mechanically by lib/c16_prepare.py; Verus rejects the
// slice's `iter().enumerate()`, and CBMC does not finish the B-tree insert + get on RefKey keys
// within 15 minutes even for a batch of one: the four literal histories below are executed
// NATIVELY against the extracted text instead -- `tier=native`, a bounded stand-in, batches of 0
// and 1, never counted as proved).
//
//   H1  next_id advances by exactly the batch size
//   H2  every definition of the batch is mapped, in ref_to_id, to its OWN fresh identifier
//       base_id + index -- also when its key was already known from an earlier call (the
//       conversion loop that follows stores the new entry under exactly that identifier)
//   H3  the definition's schema is recorded under its key

use super::*;
use crate::verif_common::empty_type_space;

macro_rules! stubs {
    (fn $name:ident() $body:block) => {
        #[kani::proof]
        #[kani::unwind(8)]
        #[kani::stub(crate::MapType::new, crate::verif_common::stub_map_type_new)]
        fn $name() $body
    };
}

fn check(known: bool, batch: bool) {
    let mut ts = empty_type_space();
    // a symbolic next_id does not terminate (15 min) although it is only ever stored as a
    // VALUE of the map; the history is therefore a literal: seven identifiers handed out before
    let base: u64 = 7;
    ts.next_id = base;
    if known {
        ts.ref_to_id.insert(RefKey::Root, TypeId(1));
    }
    let definitions: Vec<(RefKey, Schema)> = if batch {
        vec![(RefKey::Root, Schema::Bool(true))]
    } else {
        Vec::new()
    };
    let (base_id, def_len) = ts.verif_slice_add_ref_types_head(&definitions);
    kani::assert(
        base_id == base && def_len == definitions.len() as u64 && ts.next_id == base + def_len,
        "[C16/H1] pre-assignment does not reserve exactly one fresh identifier per definition",
    );
    if batch {
        kani::assert(
            ts.ref_to_id.get(&RefKey::Root) == Some(&TypeId(base)),
            "[C16/H2] a definition of the batch is not mapped to its own fresh identifier",
        );
        kani::assert(
            ts.definitions.get(&RefKey::Root) == Some(&Schema::Bool(true)),
            "[C16/H3] the definition's schema is not recorded under its key",
        );
    } else if known {
        kani::assert(
            ts.ref_to_id.get(&RefKey::Root) == Some(&TypeId(1)),
            "[C16/H2] an empty batch re-pointed a known reference key",
        );
    }
    core::mem::forget(ts);
    core::mem::forget(definitions);
}

stubs! {
    fn c16_head_known_key() {
        check(true, true)
    }
}

stubs! {
    fn c16_head_fresh_key() {
        check(false, true)
    }
}

stubs! {
    fn c16_head_empty_batch() {
        check(false, false)
    }
}

stubs! {
    fn c16_head_empty_batch_known_key() {
        check(true, false)
    }
}

stubs! {
    fn canary_c16_head() {
        let mut ts = empty_type_space();
        ts.next_id = 5;
        let definitions: Vec<(RefKey, Schema)> = vec![(RefKey::Root, Schema::Bool(true))];
        let _ = ts.verif_slice_add_ref_types_head(&definitions);
        kani::assert(ts.next_id == 5, "[CANARY] pre-assignment never advances next_id");
        core::mem::forget(ts);
        core::mem::forget(definitions);
    }
}
