// @unit c17_facade property=C17 attach=typify-impl/src/lib.rs
// @needs te_support
// @h c17_properties_info_flags tier=both
// @canary canary_c17_facade
//
// C17 -- the `Type` facade (lib.rs): "a struct's reported properties (names, required flags,
// types) ... are exactly its fields" and "builder() is Some exactly when a builder type is
// emitted".
//
//   Q1  TypeStruct::properties_info reports, per property and in order, the property's name
//       and type id, and required == (state is Required) -- `Required` is the only state for
//       which structs::generate_serde_attr emits no `#[serde(default ..)]` (the other of the
//       two cooperating sites; that function builds token streams and is not under contract)
//   (Q2, `builder()` is Some exactly for structs when struct builders are on, is in the unit
//   c17_builder.)
//
// The property state is symbolic over its three variants; kinds are concrete per harness.

use super::*;
use crate::type_entry::{StructPropertyState, WrappedValue};
use crate::type_entry::verif_te_support::{mk_prop, mk_struct};

macro_rules! stubs {
    (fn $name:ident() $body:block) => {
        #[kani::proof]
        #[kani::unwind(8)]
        #[kani::stub(crate::MapType::new, crate::verif_common::stub_map_type_new)]
        #[kani::stub(crate::util::sanitize, crate::verif_common::stub_sanitize)]
        fn $name() $body
    };
}

fn any_state() -> (StructPropertyState, u8) {
    let k: u8 = kani::any();
    match k {
        0 => (StructPropertyState::Required, 0),
        1 => (StructPropertyState::Optional, 1),
        _ => (StructPropertyState::Default(WrappedValue::new(serde_json::Value::Null)), 2),
    }
}

stubs! {
    fn c17_properties_info_flags() {
        let (s0, k0) = any_state();
        let (s1, k1) = any_state();
        let id0: u64 = kani::any();
        let id1: u64 = kani::any();
        let entry = mk_struct(
            "S",
            vec![mk_prop("a", TypeId(id0), s0), mk_prop("b", TypeId(id1), s1)],
            false,
        );
        let TypeEntryDetails::Struct(details) = &entry.details else {
            unreachable!()
        };
        let ts = TypeStruct { details };
        let mut it = ts.properties_info();
        let p0 = it.next();
        let p1 = it.next();
        let p2 = it.next();
        match (&p0, &p1, &p2) {
            (Some(p0), Some(p1), None) => {
                kani::assert(
                    p0.required == (k0 == 0) && p1.required == (k1 == 0),
                    "[C17/Q1] a reported property's `required` flag differs from whether its field is emitted without a serde default",
                );
                kani::assert(
                    p0.name.as_bytes() == b"a" && p1.name.as_bytes() == b"b",
                    "[C17/Q1] reported property names are not the struct's fields in order",
                );
                kani::assert(
                    p0.type_id == TypeId(id0) && p1.type_id == TypeId(id1),
                    "[C17/Q1] a reported property's type id is not its field's",
                );
            }
            _ => kani::assert(false, "[C17/Q1] the number of reported properties differs from the number of fields"),
        }
        kani::cover!(k0 == 2 && k1 == 1, "[must] defaulted and optional properties reachable");
        core::mem::forget(p0);
        core::mem::forget(p1);
        core::mem::forget(p2);
        core::mem::forget(it);
        core::mem::forget(entry);
    }
}

stubs! {
    fn canary_c17_facade() {
        let entry = mk_struct("S", vec![mk_prop("a", TypeId(1), StructPropertyState::Required)], false);
        let TypeEntryDetails::Struct(details) = &entry.details else {
            unreachable!()
        };
        let ts = TypeStruct { details };
        let p0 = ts.properties_info().next();
        kani::assert(p0.is_none(), "[CANARY] a struct never reports a property");
        core::mem::forget(p0);
        core::mem::forget(entry);
    }
}
