// @unit c07_children property=C07 attach=typify-impl/src/cycles.rs
// @needs te_support
// @h c07_children_option tier=both
// @h c07_children_array tier=both
// @h c07_children_tuple tier=both bounded=tuple-of-2
// @h c07_children_newtype tier=both
// @h c07_children_struct tier=both bounded=2-properties
// @h c07_children_enum_simple tier=off bounded=1-variant
// @h c07_children_enum_item tier=off bounded=1-variant
// @h c07_children_enum_tuple tier=off bounded=1-variant-of-2-children
// @h c07_children_enum_struct tier=off bounded=1-variant-of-2-children
// @h c07_children_enum_two_variants tier=off bounded=2-variants
// @h c07_children_box tier=both
// @h c07_children_vec tier=both
// @h c07_children_map tier=both
// @h c07_children_set tier=both
// @h c07_children_reference tier=both
// @h c07_children_unit tier=both
// @h c07_children_boolean tier=both
// @h c07_children_integer tier=both
// @h c07_children_float tier=both
// @h c07_children_string tier=both
// @h c07_children_json_value tier=both
// @h c07_children_native tier=both
// @canary canary_c07_children
//
// C07 -- the by-value child relation used by cycle breaking (`cycles::get_child_ids`).
//
// "Every containment cycle among the generated types passes through a heap
// indirection": break_cycles walks the graph whose edges are what get_child_ids returns
// and boxes back edges. The edge relation must therefore be EXACTLY by-value
// containment:
//
//   P1  the identifiers behind the returned slots are, as a multiset, the by-value
//       children of the entry: variant payloads (item, tuple elements, struct-variant
//       property types), struct property types, the newtype's inner type, Option / Array
//       / Tuple elements -- and NONE for Box, Vec, Map, Set (heap indirections), Native,
//       Reference and the scalar kinds
//   F1  the slots alias the entry: writing a fresh identifier through every slot changes
//       exactly the by-value children of the entry (that is how a back edge is re-pointed
//       at its Box)
//
// NOT DECIDED: the Enum arm. `variants.iter_mut().flat_map(..).collect()` does not
// terminate in CBMC within 15 minutes even for an enum of one variant (harnesses kept below
// with `tier=off` for the record; they are run by neither tier).
//
// `by_value_children` below is the specification, written over shared references and
// independently of the code. The entry's kind is concrete per harness, identifiers are
// symbolic. The traversal (break_cycles) itself is NOT verified.

use super::*;
use crate::type_entry::verif_te_support::*;
use crate::type_entry::{StructProperty, StructPropertyState, TypeEntryNewtypeConstraints, Variant};

/// A multiset of at most four identifiers without heap allocation.
#[derive(Clone, Copy)]
struct Ids {
    v: [u64; 4],
    n: usize,
}

impl Ids {
    fn new() -> Self {
        Ids { v: [0; 4], n: 0 }
    }
    fn push(&mut self, x: u64) {
        if self.n < 4 {
            self.v[self.n] = x;
        }
        self.n += 1;
    }
}

/// Specification: the identifiers an entry of this kind contains BY VALUE.
fn by_value_children(entry: &TypeEntry) -> Ids {
    let mut out = Ids::new();
    match &entry.details {
        TypeEntryDetails::Enum(e) => {
            for v in &e.variants {
                match &v.details {
                    VariantDetails::Simple => {}
                    VariantDetails::Item(t) => out.push(t.0),
                    VariantDetails::Tuple(ts) => {
                        for t in ts {
                            out.push(t.0)
                        }
                    }
                    VariantDetails::Struct(ps) => {
                        for p in ps {
                            out.push(p.type_id.0)
                        }
                    }
                }
            }
        }
        TypeEntryDetails::Struct(s) => {
            for p in &s.properties {
                out.push(p.type_id.0)
            }
        }
        TypeEntryDetails::Newtype(n) => out.push(n.type_id.0),
        TypeEntryDetails::Option(t) => out.push(t.0),
        TypeEntryDetails::Array(t, _) => out.push(t.0),
        TypeEntryDetails::Tuple(ts) => {
            for t in ts {
                out.push(t.0)
            }
        }
        // heap indirections, opaque natives, aliases and scalars contain nothing by value
        TypeEntryDetails::Box(_)
        | TypeEntryDetails::Vec(_)
        | TypeEntryDetails::Map(_, _)
        | TypeEntryDetails::Set(_)
        | TypeEntryDetails::Native(_)
        | TypeEntryDetails::Reference(_)
        | TypeEntryDetails::Unit
        | TypeEntryDetails::Boolean
        | TypeEntryDetails::Integer(_)
        | TypeEntryDetails::Float(_)
        | TypeEntryDetails::String
        | TypeEntryDetails::JsonValue => {}
    }
    out
}

/// multiset equality for up to four elements
fn same_multiset(a: &Ids, b: &Ids) -> bool {
    if a.n != b.n || a.n > 4 {
        return false;
    }
    let mut used = [false; 4];
    let mut i = 0;
    while i < a.n {
        let mut found = false;
        let mut j = 0;
        while j < b.n {
            if !found && !used[j] && a.v[i] == b.v[j] {
                used[j] = true;
                found = true;
            }
            j += 1;
        }
        if !found {
            return false;
        }
        i += 1;
    }
    true
}

fn check_children(mut entry: TypeEntry, expect_n: usize) {
    let want = by_value_children(&entry);
    kani::assert(want.n == expect_n, "[C07/SPEC] harness built an entry of unexpected arity");
    let fresh_v: [u64; 4] = [kani::any(), kani::any(), kani::any(), kani::any()];
    let mut got = Ids::new();
    {
        let mut slots = get_child_ids(&mut entry);
        // F1: write a fresh identifier through every slot
        let mut k = 0;
        while k < slots.len() {
            got.push(slots[k].0);
            if k < 4 {
                *slots[k] = TypeId(fresh_v[k]);
            }
            k += 1;
        }
        core::mem::forget(slots);
    }
    kani::assert(
        same_multiset(&got, &want),
        "[C07/P1] get_child_ids is not exactly the by-value children of the entry",
    );
    let after = by_value_children(&entry);
    let fresh = Ids { v: fresh_v, n: got.n };
    kani::assert(
        same_multiset(&after, &fresh),
        "[C07/F1] writing through the returned slots did not re-point exactly the by-value children",
    );
    kani::cover!(got.n == expect_n, "[must] expected arity reachable");
    core::mem::forget(entry);
}

fn id() -> TypeId {
    TypeId(kani::any())
}

macro_rules! h {
    ($name:ident, $n:expr, $entry:expr) => {
        #[kani::proof]
        #[kani::unwind(8)]
        fn $name() {
            check_children($entry, $n)
        }
    };
}

h!(c07_children_option, 1, TypeEntryDetails::Option(id()).into());
h!(c07_children_array, 1, TypeEntryDetails::Array(id(), kani::any()).into());
h!(c07_children_tuple, 2, TypeEntryDetails::Tuple(vec![id(), id()]).into());
h!(
    c07_children_newtype,
    1,
    mk_newtype("N", id(), TypeEntryNewtypeConstraints::None)
);
h!(
    c07_children_struct,
    2,
    mk_struct(
        "S",
        vec![
            mk_prop("a", id(), StructPropertyState::Required),
            mk_prop("b", id(), StructPropertyState::Optional)
        ],
        false
    )
);
h!(
    c07_children_enum_simple,
    0,
    mk_enum(
        "E",
        crate::type_entry::EnumTagType::External,
        vec![mk_variant("A", VariantDetails::Simple)]
    )
);
h!(
    c07_children_enum_item,
    1,
    mk_enum(
        "E",
        crate::type_entry::EnumTagType::External,
        vec![mk_variant("B", VariantDetails::Item(id()))]
    )
);
h!(
    c07_children_enum_tuple,
    2,
    mk_enum(
        "E",
        crate::type_entry::EnumTagType::Untagged,
        vec![mk_variant("A", VariantDetails::Tuple(vec![id(), id()]))]
    )
);
h!(
    c07_children_enum_struct,
    2,
    mk_enum(
        "E",
        crate::type_entry::EnumTagType::Untagged,
        vec![mk_variant(
            "B",
            VariantDetails::Struct(vec![
                mk_prop("x", id(), StructPropertyState::Required),
                mk_prop("y", id(), StructPropertyState::Required)
            ])
        )]
    )
);
h!(
    c07_children_enum_two_variants,
    2,
    mk_enum(
        "E",
        crate::type_entry::EnumTagType::External,
        vec![
            mk_variant("A", VariantDetails::Item(id())),
            mk_variant("B", VariantDetails::Item(id()))
        ]
    )
);
h!(c07_children_box, 0, TypeEntryDetails::Box(id()).into());
h!(c07_children_vec, 0, TypeEntryDetails::Vec(id()).into());
h!(c07_children_map, 0, TypeEntryDetails::Map(id(), id()).into());
h!(c07_children_set, 0, TypeEntryDetails::Set(id()).into());
h!(c07_children_reference, 0, TypeEntryDetails::Reference(id()).into());
h!(
    c07_children_native,
    0,
    TypeEntry::new_native_params("::std::collections::Foo", &[id()])
);

h!(c07_children_unit, 0, TypeEntryDetails::Unit.into());
h!(c07_children_boolean, 0, TypeEntryDetails::Boolean.into());
h!(c07_children_integer, 0, TypeEntryDetails::Integer("u8".to_string()).into());
h!(c07_children_float, 0, TypeEntryDetails::Float("f64".to_string()).into());
h!(c07_children_string, 0, TypeEntryDetails::String.into());
h!(c07_children_json_value, 0, TypeEntryDetails::JsonValue.into());

#[kani::proof]
#[kani::unwind(8)]
fn canary_c07_children() {
    let mut entry: TypeEntry = TypeEntryDetails::Option(TypeId(7)).into();
    let n = get_child_ids(&mut entry).len();
    kani::assert(n == 0, "[CANARY] an Option has no by-value child");
    core::mem::forget(entry);
}
