// @unit c07_children property=C07 attach=typify-impl/src/cycles.rs
// @needs te_support
// @h c07_children_option tier=both
// @h c07_children_array tier=both
// @h c07_children_tuple tier=both bounded=tuple-of-2
// @h c07_children_newtype tier=both
// @h c07_children_struct tier=both bounded=2-properties
// @h c07_children_struct_flattened tier=both bounded=2-properties
// @h c07_children_enum_simple tier=native bounded=1-variant
// @h c07_children_enum_item tier=native bounded=1-variant
// @h c07_children_enum_tuple tier=native bounded=1-variant-of-2-children
// @h c07_children_enum_struct tier=native bounded=1-variant-of-2-children
// @h c07_children_enum_two_variants tier=native bounded=2-variants
// @h c07_break_cycles_literal_graphs tier=native bounded=10-literal-graphs-of-at-most-4-entries
// @h c07_children_box tier=both
// @h c07_children_vec tier=both
// @h c07_children_map tier=both
// @h c07_children_set tier=both
// @h c07_children_reference tier=both
// @h c07_children_unit tier=both
// @h c07_children_boolean tier=both
// @h c07_children_integer tier=both
// @h c07_children_float tier=both
// @h c07_children_string tier=both
// @h c07_children_json_value tier=both
// @h c07_children_native tier=both
// @canary canary_c07_children
// @native-canary canary_c07_children
//
// C07 -- the by-value child relation used by cycle breaking (`cycles::get_child_ids`).
//
// "Every containment cycle among the generated types passes through a heap
// indirection": break_cycles walks the graph whose edges are what get_child_ids returns
// and boxes back edges. The edge relation must therefore be EXACTLY by-value
// containment:
//
//   P1  the identifiers behind the returned slots are, as a multiset, the by-value
//       children of the entry: variant payloads (item, tuple elements, struct-variant
//       property types), struct property types, the newtype's inner type, Option / Array
//       / Tuple elements -- and NONE for Box, Vec, Map, Set (heap indirections), Native,
//       Reference and the scalar kinds
//   F1  the slots alias the entry: writing a fresh identifier through every slot changes
//       exactly the by-value children of the entry (that is how a back edge is re-pointed
//       at its Box)
//
// The Enum arm is NOT proved: `variants.iter_mut().flat_map(..).collect()` does not terminate
// in CBMC within 15 minutes even for an enum of one variant. BOUNDED STAND-IN: five literal
// enums (literal identifiers) are executed natively against the real function (`tier=native`),
// never counted as proved.
//
//   T1  (BOUNDED, native execution only -- the traversal is outside both verifiers: Kani gives
//       no result on two nodes, Verus rejects Vec<&mut T> / flat_map / partition / closures)
//       after break_cycles over the whole range, the by-value containment graph (edges =
//       by_value_children, i.e. NOT through Box / Vec / Map / Set) of each of ten literal
//       graphs is acyclic: a self loop through Option, a two-struct cycle through Option, cycles
//       through a tuple, a fixed-length array, a newtype and an enum variant, two cycles
//       sharing a node, and cycles entered through an unnamed type (Option, array) that is
//       shared with a type outside the cycle which is visited first.
//
// `by_value_children` below is the specification, written over shared references and
// independently of the code. The entry's kind is concrete per harness, identifiers are
// symbolic. The traversal (break_cycles) itself is NOT verified.

use super::*;
use crate::type_entry::verif_te_support::*;
use crate::type_entry::{StructProperty, StructPropertyState, TypeEntryNewtypeConstraints, Variant};

/// A multiset of at most four identifiers without heap allocation.
#[derive(Clone, Copy)]
struct Ids {
    v: [u64; 4],
    n: usize,
}

impl Ids {
    fn new() -> Self {
        Ids { v: [0; 4], n: 0 }
    }
    fn push(&mut self, x: u64) {
        if self.n < 4 {
            self.v[self.n] = x;
        }
        self.n += 1;
    }
}

/// Specification: the identifiers an entry of this kind contains BY VALUE.
fn by_value_children(entry: &TypeEntry) -> Ids {
    let mut out = Ids::new();
    match &entry.details {
        TypeEntryDetails::Enum(e) => {
            for v in &e.variants {
                match &v.details {
                    VariantDetails::Simple => {}
                    VariantDetails::Item(t) => out.push(t.0),
                    VariantDetails::Tuple(ts) => {
                        for t in ts {
                            out.push(t.0)
                        }
                    }
                    VariantDetails::Struct(ps) => {
                        for p in ps {
                            out.push(p.type_id.0)
                        }
                    }
                }
            }
        }
        TypeEntryDetails::Struct(s) => {
            for p in &s.properties {
                out.push(p.type_id.0)
            }
        }
        TypeEntryDetails::Newtype(n) => out.push(n.type_id.0),
        TypeEntryDetails::Option(t) => out.push(t.0),
        TypeEntryDetails::Array(t, _) => out.push(t.0),
        TypeEntryDetails::Tuple(ts) => {
            for t in ts {
                out.push(t.0)
            }
        }
        // heap indirections, opaque natives, aliases and scalars contain nothing by value
        TypeEntryDetails::Box(_)
        | TypeEntryDetails::Vec(_)
        | TypeEntryDetails::Map(_, _)
        | TypeEntryDetails::Set(_)
        | TypeEntryDetails::Native(_)
        | TypeEntryDetails::Reference(_)
        | TypeEntryDetails::Unit
        | TypeEntryDetails::Boolean
        | TypeEntryDetails::Integer(_)
        | TypeEntryDetails::Float(_)
        | TypeEntryDetails::String
        | TypeEntryDetails::JsonValue => {}
    }
    out
}

/// multiset equality for up to four elements
fn same_multiset(a: &Ids, b: &Ids) -> bool {
    if a.n != b.n || a.n > 4 {
        return false;
    }
    let mut used = [false; 4];
    let mut i = 0;
    while i < a.n {
        let mut found = false;
        let mut j = 0;
        while j < b.n {
            if !found && !used[j] && a.v[i] == b.v[j] {
                used[j] = true;
                found = true;
            }
            j += 1;
        }
        if !found {
            return false;
        }
        i += 1;
    }
    true
}

fn check_children(entry: TypeEntry, expect_n: usize) {
    check_children_with(entry, expect_n, [kani::any(), kani::any(), kani::any(), kani::any()])
}

fn check_children_with(mut entry: TypeEntry, expect_n: usize, fresh_v: [u64; 4]) {
    let want = by_value_children(&entry);
    kani::assert(want.n == expect_n, "[C07/SPEC] harness built an entry of unexpected arity");
    let mut got = Ids::new();
    {
        let mut slots = get_child_ids(&mut entry);
        // F1: write a fresh identifier through every slot
        let mut k = 0;
        while k < slots.len() {
            got.push(slots[k].0);
            if k < 4 {
                *slots[k] = TypeId(fresh_v[k]);
            }
            k += 1;
        }
        core::mem::forget(slots);
    }
    kani::assert(
        same_multiset(&got, &want),
        "[C07/P1] get_child_ids is not exactly the by-value children of the entry",
    );
    let after = by_value_children(&entry);
    let fresh = Ids { v: fresh_v, n: got.n };
    kani::assert(
        same_multiset(&after, &fresh),
        "[C07/F1] writing through the returned slots did not re-point exactly the by-value children",
    );
    kani::cover!(got.n == expect_n, "[must] expected arity reachable");
    core::mem::forget(entry);
}

fn id() -> TypeId {
    TypeId(kani::any())
}

/// literal identifiers for the `tier=native` instances (no symbolic value is drawn there)
fn lid(k: u64) -> TypeId {
    TypeId(100 + k)
}

macro_rules! hl {
    ($name:ident, $n:expr, $entry:expr) => {
        #[kani::proof]
        #[kani::unwind(8)]
        fn $name() {
            check_children_with($entry, $n, [901, 902, 903, 904])
        }
    };
}

macro_rules! h {
    ($name:ident, $n:expr, $entry:expr) => {
        #[kani::proof]
        #[kani::unwind(8)]
        fn $name() {
            check_children($entry, $n)
        }
    };
}

h!(c07_children_option, 1, TypeEntryDetails::Option(id()).into());
h!(c07_children_array, 1, TypeEntryDetails::Array(id(), kani::any()).into());
h!(c07_children_tuple, 2, TypeEntryDetails::Tuple(vec![id(), id()]).into());
h!(
    c07_children_newtype,
    1,
    mk_newtype("N", id(), TypeEntryNewtypeConstraints::None)
);
h!(
    c07_children_struct,
    2,
    mk_struct(
        "S",
        vec![
            mk_prop("a", id(), StructPropertyState::Required),
            mk_prop("b", id(), StructPropertyState::Optional)
        ],
        false
    )
);
h!(c07_children_struct_flattened, 2, {
    // a flattened member (any-of structs flatten Option<T> members) is contained by value too
    let mut flat = mk_prop("f", id(), StructPropertyState::Optional);
    flat.rename = crate::type_entry::StructPropertyRename::Flatten;
    mk_struct("S", vec![mk_prop("a", id(), StructPropertyState::Required), flat], false)
});
hl!(
    c07_children_enum_simple,
    0,
    mk_enum(
        "E",
        crate::type_entry::EnumTagType::External,
        vec![mk_variant("A", VariantDetails::Simple)]
    )
);
hl!(
    c07_children_enum_item,
    1,
    mk_enum(
        "E",
        crate::type_entry::EnumTagType::External,
        vec![mk_variant("B", VariantDetails::Item(lid(1)))]
    )
);
hl!(
    c07_children_enum_tuple,
    2,
    mk_enum(
        "E",
        crate::type_entry::EnumTagType::Untagged,
        vec![mk_variant("A", VariantDetails::Tuple(vec![lid(2), lid(3)]))]
    )
);
hl!(
    c07_children_enum_struct,
    2,
    mk_enum(
        "E",
        crate::type_entry::EnumTagType::Untagged,
        vec![mk_variant(
            "B",
            VariantDetails::Struct(vec![
                mk_prop("x", lid(4), StructPropertyState::Required),
                mk_prop("y", lid(5), StructPropertyState::Required)
            ])
        )]
    )
);
hl!(
    c07_children_enum_two_variants,
    2,
    mk_enum(
        "E",
        crate::type_entry::EnumTagType::External,
        vec![
            mk_variant("A", VariantDetails::Item(lid(6))),
            mk_variant("B", VariantDetails::Item(lid(7)))
        ]
    )
);
h!(c07_children_box, 0, TypeEntryDetails::Box(id()).into());
h!(c07_children_vec, 0, TypeEntryDetails::Vec(id()).into());
h!(c07_children_map, 0, TypeEntryDetails::Map(id(), id()).into());
h!(c07_children_set, 0, TypeEntryDetails::Set(id()).into());
h!(c07_children_reference, 0, TypeEntryDetails::Reference(id()).into());
h!(
    c07_children_native,
    0,
    TypeEntry::new_native_params("::std::collections::Foo", &[id()])
);

h!(c07_children_unit, 0, TypeEntryDetails::Unit.into());
h!(c07_children_boolean, 0, TypeEntryDetails::Boolean.into());
h!(c07_children_integer, 0, TypeEntryDetails::Integer("u8".to_string()).into());
h!(c07_children_float, 0, TypeEntryDetails::Float("f64".to_string()).into());
h!(c07_children_string, 0, TypeEntryDetails::String.into());
h!(c07_children_json_value, 0, TypeEntryDetails::JsonValue.into());

/// T1: depth-first search over the by-value edges; true when a cycle is reachable from `id`.
fn by_value_cycle_from(ts: &TypeSpace, id: u64, state: &mut [u8; 16]) -> bool {
    if id as usize >= state.len() {
        return false;
    }
    match state[id as usize] {
        1 => return true,
        2 => return false,
        _ => {}
    }
    state[id as usize] = 1;
    if let Some(e) = ts.id_to_entry.get(&TypeId(id)) {
        let kids = by_value_children(e);
        let mut k = 0;
        while k < kids.n && k < 4 {
            if by_value_cycle_from(ts, kids.v[k], state) {
                return true;
            }
            k += 1;
        }
    }
    state[id as usize] = 2;
    false
}

fn check_graph(entries: Vec<TypeEntry>, what: &'static str) {
    let mut ts = TypeSpace::default();
    let n = entries.len() as u64;
    for (i, e) in entries.into_iter().enumerate() {
        ts.id_to_entry.insert(TypeId(i as u64), e);
    }
    ts.next_id = n;
    ts.break_cycles(0..n);
    let mut id = 0;
    while id < ts.next_id {
        let mut state = [0u8; 16];
        if by_value_cycle_from(&ts, id, &mut state) {
            panic!("[C07/T1] a containment cycle without heap indirection survives break_cycles: {}", what);
        }
        id += 1;
    }
}

#[kani::proof]
fn c07_break_cycles_literal_graphs() {
    use crate::type_entry::EnumTagType;
    let req = || StructPropertyState::Required;
    // N { next: Option<N> }
    check_graph(
        vec![mk_struct("N", vec![mk_prop("next", TypeId(1), req())], false), TypeEntryDetails::Option(TypeId(0)).into()],
        "self loop through Option",
    );
    // A { b: B }, B { a: Option<A> }
    check_graph(
        vec![
            mk_struct("A", vec![mk_prop("b", TypeId(1), req())], false),
            mk_struct("B", vec![mk_prop("a", TypeId(2), req())], false),
            TypeEntryDetails::Option(TypeId(0)).into(),
        ],
        "two structs through Option",
    );
    // T { p: (T, bool) }
    check_graph(
        vec![
            mk_struct("T", vec![mk_prop("p", TypeId(1), req())], false),
            TypeEntryDetails::Tuple(vec![TypeId(0), TypeId(2)]).into(),
            TypeEntryDetails::Boolean.into(),
        ],
        "cycle through a tuple",
    );
    // S { a: [S; 2] }
    check_graph(
        vec![mk_struct("S", vec![mk_prop("a", TypeId(1), req())], false), TypeEntryDetails::Array(TypeId(0), 2).into()],
        "cycle through a fixed-length array",
    );
    // W(E), enum E { V(W), X }
    check_graph(
        vec![
            mk_newtype("W", TypeId(1), TypeEntryNewtypeConstraints::None),
            mk_enum(
                "E",
                EnumTagType::External,
                vec![mk_variant("V", VariantDetails::Item(TypeId(0))), mk_variant("X", VariantDetails::Simple)],
            ),
        ],
        "cycle through a newtype and an enum variant",
    );
    // P { q: Q, r: R }, Q { p: Option<P> }, R { p: Option<P> }  (entry 3 = Option<P>)
    check_graph(
        vec![
            mk_struct("P", vec![mk_prop("q", TypeId(1), req()), mk_prop("r", TypeId(2), req())], false),
            mk_struct("Q", vec![mk_prop("p", TypeId(3), req())], false),
            mk_struct("R", vec![mk_prop("p", TypeId(3), req())], false),
            TypeEntryDetails::Option(TypeId(0)).into(),
        ],
        "two cycles sharing a node",
    );
    // Holder { head: Option<Node> }, Node { next: Option<Node> } with ONE shared Option<Node>
    // entry (type_to_id shares unnamed types), the holder outside the cycle visited first
    check_graph(
        vec![
            mk_struct("Holder", vec![mk_prop("head", TypeId(2), req())], false),
            mk_struct("Node", vec![mk_prop("next", TypeId(2), req())], false),
            TypeEntryDetails::Option(TypeId(1)).into(),
        ],
        "cycle entered through an unnamed type shared with a type outside the cycle",
    );
    // Alpha { beta: Beta }, Beta { x: Beta, y: Alpha }: one node with back edges to two
    // different ancestors whose identifiers are NOT ascending in child order
    check_graph(
        vec![
            mk_struct("Alpha", vec![mk_prop("beta", TypeId(1), req())], false),
            mk_struct("Beta", vec![mk_prop("x", TypeId(1), req()), mk_prop("y", TypeId(0), req())], false),
        ],
        "two back edges from one node, targets not in ascending identifier order",
    );
    // Ring { next: [Ring; 1] }
    check_graph(
        vec![mk_struct("Ring", vec![mk_prop("next", TypeId(1), req())], false), TypeEntryDetails::Array(TypeId(0), 1).into()],
        "cycle through an array of length 1",
    );
    // the same with a fixed-length array as the shared unnamed type
    check_graph(
        vec![
            mk_struct("Holder", vec![mk_prop("items", TypeId(2), req())], false),
            mk_struct("Node", vec![mk_prop("kids", TypeId(2), req())], false),
            TypeEntryDetails::Array(TypeId(1), 2).into(),
        ],
        "cycle entered through a shared fixed-length array",
    );
}

#[kani::proof]
#[kani::unwind(8)]
fn canary_c07_children() {
    let mut entry: TypeEntry = TypeEntryDetails::Option(TypeId(7)).into();
    let n = get_child_ids(&mut entry).len();
    kani::assert(n == 0, "[CANARY] an Option has no by-value child");
    core::mem::forget(entry);
}
