// @unit c10_string property=C10 attach=typify-impl/src/convert.rs
// @h c10_str_uuid tier=thorough bounded=one-literal-format-per-instance
// @h c10_str_date tier=thorough bounded=one-literal-format-per-instance
// @h c10_str_date_time tier=thorough bounded=one-literal-format-per-instance
// @h c10_str_ip tier=thorough bounded=one-literal-format-per-instance
// @h c10_str_ipv4 tier=thorough bounded=one-literal-format-per-instance
// @h c10_str_ipv6 tier=thorough bounded=one-literal-format-per-instance
// @h c10_str_none tier=thorough bounded=one-literal-format-per-instance
// @h c10_str_unknown_empty tier=thorough bounded=one-literal-format-per-instance
// @h c10_str_unknown_upper tier=thorough bounded=one-literal-format-per-instance
// @h c10_str_unknown_uri tier=thorough bounded=one-literal-format-per-instance
// @h c10_str_unknown_prefix tier=thorough bounded=one-literal-format-per-instance
// @h c10_str_unknown_suffix tier=thorough bounded=one-literal-format-per-instance
// @h c10_num_symbolic tier=both
// @h c10_str_symbolic tier=both
// @canary canary_c10_string
//
// C10 / C17 -- string-format and float-format selection
// (`TypeSpace::convert_string`, `TypeSpace::convert_number`).
//
//   P5  convert_number: the result is Float("f32") only when format == "float",
//       Float("f64") otherwise; never Err.
//   P6  convert_string without validation: each of the six documented formats gives
//       exactly the documented path; an unrecognised format (and no format) gives
//       String; never Err.
//   C17/F1  whenever the chosen path is in ::uuid / ::chrono the matching uses_* flag
//       of the type space is set.
//
// One harness instance per literal format: a concrete instance is the symbolic
// execution of one path, i.e. no stronger than a unit test -- these are labelled
// `bounded` and never counted as proved. That every unlisted string takes the
// default arm is the semantics of `match`.

use super::*;
use crate::type_entry::{TypeEntry, TypeEntryDetails};
use crate::verif_common::empty_type_space;

fn check_string(format: Option<&str>, expect: Option<&str>) {
    let mut ts = empty_type_space();
    let fmt: Option<String> = format.map(|s| s.to_string());
    let schema = Schema::Bool(true);
    let metadata: Option<Box<Metadata>> = None;
    let result = ts.convert_string(Name::Unknown, &schema, &metadata, &fmt, None);
    match &result {
        Ok((TypeEntry { details, .. }, _)) => match (details, expect) {
            (TypeEntryDetails::Native(native), Some(path)) => {
                kani::assert(
                    native.type_name == path,
                    "[C10/P6] documented string format mapped to another native type",
                );
                kani::assert(
                    native.parameters.is_empty(),
                    "[C10/P6] native string-format type has parameters",
                );
                if path.starts_with("::uuid") {
                    kani::assert(ts.uses_uuid, "[C17/F1] ::uuid path chosen without uses_uuid");
                }
                if path.starts_with("::chrono") {
                    kani::assert(ts.uses_chrono, "[C17/F1] ::chrono path chosen without uses_chrono");
                }
            }
            (TypeEntryDetails::String, None) => {}
            (_, Some(_)) => kani::assert(
                false,
                "[C10/P6] documented string format did not map to its native type",
            ),
            (_, None) => kani::assert(
                false,
                "[C10/P6] unrecognised string format degraded to something other than String",
            ),
        },
        Err(_) => kani::assert(false, "[C10/P6] string schema without validation rejected"),
    }
    kani::cover!(result.is_ok(), "[must] Ok reachable");
    core::mem::forget(result);
    core::mem::forget(ts);
    core::mem::forget(fmt);
}

macro_rules! str_harness {
    ($name:ident, $fmt:expr, $expect:expr) => {
        #[kani::proof]
        #[kani::unwind(48)]
        #[kani::stub(crate::MapType::new, crate::verif_common::stub_map_type_new)]
        #[kani::stub(crate::util::sanitize, crate::verif_common::stub_sanitize)]
#[kani::stub(regress::Regex::new, crate::verif_common::stub_regex_new)]
        fn $name() {
            check_string($fmt, $expect)
        }
    };
}

str_harness!(c10_str_uuid, Some("uuid"), Some("::uuid::Uuid"));
str_harness!(c10_str_date, Some("date"), Some("::chrono::naive::NaiveDate"));
str_harness!(
    c10_str_date_time,
    Some("date-time"),
    Some("::chrono::DateTime<::chrono::offset::Utc>")
);
str_harness!(c10_str_ip, Some("ip"), Some("::std::net::IpAddr"));
str_harness!(c10_str_ipv4, Some("ipv4"), Some("::std::net::Ipv4Addr"));
str_harness!(c10_str_ipv6, Some("ipv6"), Some("::std::net::Ipv6Addr"));
str_harness!(c10_str_none, None, None);
str_harness!(c10_str_unknown_empty, Some(""), None);
str_harness!(c10_str_unknown_upper, Some("UUID"), None);
str_harness!(c10_str_unknown_uri, Some("uri"), None);
str_harness!(c10_str_unknown_prefix, Some("ipv"), None);
str_harness!(c10_str_unknown_suffix, Some("date-times"), None);

/// The README / property table, written independently of the code's `match`.
fn documented_string_type(format: &str) -> Option<&'static str> {
    if format == "uuid" {
        Some("::uuid::Uuid")
    } else if format == "date" {
        Some("::chrono::naive::NaiveDate")
    } else if format == "date-time" {
        Some("::chrono::DateTime<::chrono::offset::Utc>")
    } else if format == "ip" {
        Some("::std::net::IpAddr")
    } else if format == "ipv4" {
        Some("::std::net::Ipv4Addr")
    } else if format == "ipv6" {
        Some("::std::net::Ipv6Addr")
    } else {
        None
    }
}

/// P6 over EVERY format string of at most 10 bytes (symbolic ASCII bytes, symbolic length).
/// Longer strings cannot equal any of the six literals (all are at most 9 bytes long and
/// `str` equality compares lengths first), so they take the default arm like every
/// other unlisted string.
#[kani::proof]
#[kani::unwind(48)]
#[kani::stub(crate::MapType::new, crate::verif_common::stub_map_type_new)]
#[kani::stub(crate::util::sanitize, crate::verif_common::stub_sanitize)]
#[kani::stub(regress::Regex::new, crate::verif_common::stub_regex_new)]
fn c10_str_symbolic() {
    const N: usize = 10;
    // one `any()` per byte: Kani's concrete playback does not record a whole-array `any()`
    let mut bytes = [0u8; N];
    let mut j = 0;
    while j < N {
        bytes[j] = kani::any();
        j += 1;
    }
    let len: usize = kani::any();
    kani::assume(len <= N);
    let mut i = 0;
    while i < N {
        kani::assume(bytes[i] < 0x80);
        i += 1;
    }
    let s: &str = unsafe { core::str::from_utf8_unchecked(&bytes[..len]) };
    let present: bool = kani::any();
    let fmt: Option<String> = if present { Some(String::from(s)) } else { None };
    let expect = if present { documented_string_type(s) } else { None };

    let mut ts = empty_type_space();
    let schema = Schema::Bool(true);
    let metadata: Option<Box<Metadata>> = None;
    let result = ts.convert_string(Name::Unknown, &schema, &metadata, &fmt, None);
    match &result {
        Ok((TypeEntry { details, .. }, _)) => match (details, expect) {
            (TypeEntryDetails::Native(native), Some(path)) => {
                kani::assert(
                    native.type_name == path,
                    "[C10/P6] documented string format mapped to another native type",
                );
                if path.starts_with("::uuid") {
                    kani::assert(ts.uses_uuid, "[C17/F1] ::uuid path chosen without uses_uuid");
                }
                if path.starts_with("::chrono") {
                    kani::assert(ts.uses_chrono, "[C17/F1] ::chrono path chosen without uses_chrono");
                }
            }
            (TypeEntryDetails::String, None) => {}
            (_, Some(_)) => kani::assert(
                false,
                "[C10/P6] documented string format did not map to its native type",
            ),
            (_, None) => kani::assert(
                false,
                "[C10/P6] unrecognised string format degraded to something other than String",
            ),
        },
        Err(_) => kani::assert(false, "[C10/P6] string schema without validation rejected"),
    }
    kani::cover!(expect.is_some(), "[must] a documented format is reachable");
    kani::cover!(present && expect.is_none() && len == 9, "[must] an unrecognised 9-byte format is reachable");
    kani::cover!(!present, "[must] absent format reachable");
    core::mem::forget(result);
    core::mem::forget(ts);
    core::mem::forget(fmt);
}

/// P5 over EVERY format string of at most 7 bytes ("float" has 5; a longer string cannot
/// equal it) and the absent format.
#[kani::proof]
#[kani::unwind(48)]
#[kani::stub(crate::MapType::new, crate::verif_common::stub_map_type_new)]
#[kani::stub(crate::util::sanitize, crate::verif_common::stub_sanitize)]
#[kani::stub(regress::Regex::new, crate::verif_common::stub_regex_new)]
fn c10_num_symbolic() {
    const N: usize = 7;
    // one `any()` per byte: Kani's concrete playback does not record a whole-array `any()`
    let mut bytes = [0u8; N];
    let mut j = 0;
    while j < N {
        bytes[j] = kani::any();
        j += 1;
    }
    let len: usize = kani::any();
    kani::assume(len <= N);
    let mut i = 0;
    while i < N {
        kani::assume(bytes[i] < 0x80);
        i += 1;
    }
    let s: &str = unsafe { core::str::from_utf8_unchecked(&bytes[..len]) };
    let present: bool = kani::any();
    let fmt: Option<String> = if present { Some(String::from(s)) } else { None };
    let expect_f32 = present && s == "float";

    let ts = empty_type_space();
    let metadata: Option<Box<Metadata>> = None;
    let result = ts.convert_number(&metadata, &None, &fmt);
    match &result {
        Ok((
            TypeEntry {
                details: TypeEntryDetails::Float(name),
                ..
            },
            _,
        )) => {
            kani::assert(
                (name == "f32") == expect_f32,
                "[C10/P5] f32 selected for a format other than `float` (or not selected for it)",
            );
            kani::assert(
                name == "f32" || name == "f64",
                "[C10/P5] float schema selected something other than f32 / f64",
            );
        }
        _ => kani::assert(false, "[C10/P5] number schema did not produce a float entry"),
    }
    kani::cover!(expect_f32, "[must] format `float` reachable");
    kani::cover!(present && !expect_f32 && len == 5, "[must] another 5-byte format reachable");
    core::mem::forget(result);
    core::mem::forget(ts);
    core::mem::forget(fmt);
}

#[kani::proof]
#[kani::unwind(48)]
#[kani::stub(crate::MapType::new, crate::verif_common::stub_map_type_new)]
#[kani::stub(crate::util::sanitize, crate::verif_common::stub_sanitize)]
#[kani::stub(regress::Regex::new, crate::verif_common::stub_regex_new)]
fn canary_c10_string() {
    let mut ts = empty_type_space();
    let fmt = Some("uuid".to_string());
    let schema = Schema::Bool(true);
    let metadata: Option<Box<Metadata>> = None;
    let result = ts.convert_string(Name::Unknown, &schema, &metadata, &fmt, None);
    if let Ok((TypeEntry { details, .. }, _)) = &result {
        kani::assert(
            !matches!(details, TypeEntryDetails::Native(_)),
            "[CANARY] uuid never maps to a native type",
        );
    }
    core::mem::forget(result);
    core::mem::forget(ts);
    core::mem::forget(fmt);
}
