// @unit c06_has_default property=C06 attach=typify-impl/src/structs.rs
// @h c06_has_default_option tier=both
// @h c06_has_default_vec tier=both
// @h c06_has_default_map tier=both
// @h c06_has_default_unit tier=both
// @h c06_has_default_boolean tier=both
// @h c06_has_default_integer tier=both
// @h c06_has_default_string tier=both
// @h c06_has_default_float tier=both
// @h c06_has_default_unresolved tier=both
// @canary canary_c06_has_default
//
// C06 -- classification of a property default (`structs::has_default`).
//
// "The value produced serializes to the schema's default ... never silently replaced by a
// different value." A non-required property becomes
//   Optional       : plain `#[serde(default)]`  -> the realised default is the TYPE's default
//   Default(d)     : a default function renders d
//   Required       : no default; the caller wraps the type in Option
// so:
//   P4a with a schema default d:  Optional  ==> d IS the kind's intrinsic default
//        (null / [] / {} / false / 0 / "");  Default(d') ==> d' == d;  never Required
//   P4b without a schema default: Optional <==> the kind is Option, Vec, Map or Unit;
//        otherwise Required
//
// The property's type is looked up in a one-entry id_to_entry; the kind is concrete per
// harness, the default value is symbolic over the shapes of `any_default`.

use super::*;
use crate::type_entry::{TypeEntry, TypeEntryDetails, WrappedValue};
use crate::verif_common::{any_finite, empty_type_space};
use serde_json::Value;

#[derive(Clone, Copy, PartialEq)]
enum Shape {
    Absent,
    Null,
    Bool(bool),
    PosInt(u64),
    NegInt(i64),
    Float(f64),
    EmptyStr,
    Str,
    EmptyArray,
    Array1,
    EmptyObject,
    Object1,
}

fn any_default() -> (Option<Value>, Shape) {
    let sel: u8 = kani::any();
    match sel {
        0 => (None, Shape::Absent),
        1 => (Some(Value::Null), Shape::Null),
        2 => {
            let b: bool = kani::any();
            (Some(Value::Bool(b)), Shape::Bool(b))
        }
        3 => {
            let u: u64 = kani::any();
            (Some(Value::Number(serde_json::Number::from(u))), Shape::PosInt(u))
        }
        4 => {
            let i: i64 = kani::any();
            kani::assume(i < 0);
            (Some(Value::Number(serde_json::Number::from(i))), Shape::NegInt(i))
        }
        5 => {
            let f = any_finite();
            (
                Some(Value::Number(serde_json::Number::from_f64(f).unwrap())),
                Shape::Float(f),
            )
        }
        6 => (Some(Value::String(String::new())), Shape::EmptyStr),
        7 => (Some(Value::String(String::from("x"))), Shape::Str),
        8 => (Some(Value::Array(Vec::new())), Shape::EmptyArray),
        9 => (Some(Value::Array(vec![Value::Null])), Shape::Array1),
        10 => (Some(Value::Object(serde_json::Map::new())), Shape::EmptyObject),
        _ => {
            let mut m = serde_json::Map::new();
            m.insert(String::from("k"), Value::Null);
            (Some(Value::Object(m)), Shape::Object1)
        }
    }
}

#[derive(Clone, Copy, PartialEq)]
enum Kind {
    Option,
    Vec,
    Map,
    Unit,
    Boolean,
    Integer,
    String,
    Other,
    Unresolved,
}

fn check(details: Option<TypeEntryDetails>, kind: Kind) {
    let mut ts = empty_type_space();
    let id = TypeId(1);
    if let Some(d) = details {
        let e: TypeEntry = d.into();
        ts.id_to_entry.insert(TypeId(1), e);
    }
    let (default, shape) = any_default();
    let state = has_default(&mut ts, &id, default.as_ref());
    match (&state, shape) {
        (StructPropertyState::Optional, Shape::Absent) => kani::assert(
            matches!(kind, Kind::Option | Kind::Vec | Kind::Map | Kind::Unit),
            "[C06/P4b] a property without default is left non-optional-typed and `#[serde(default)]` although its type has no intrinsic default",
        ),
        (StructPropertyState::Required, Shape::Absent) => kani::assert(
            !matches!(kind, Kind::Option | Kind::Vec | Kind::Map | Kind::Unit),
            "[C06/P4b] Option / Vec / Map / Unit property without default is wrapped in another Option",
        ),
        (StructPropertyState::Default(_), Shape::Absent) => {
            kani::assert(false, "[C06/P4b] a default value invented for a property that has none")
        }
        (StructPropertyState::Optional, s) => {
            let intrinsic = match (kind, s) {
                (Kind::Option, Shape::Null) => true,
                (Kind::Vec, Shape::EmptyArray) => true,
                (Kind::Map, Shape::EmptyObject) => true,
                (Kind::Boolean, Shape::Bool(b)) => !b,
                (Kind::Integer, Shape::PosInt(u)) => u == 0,
                (Kind::Integer, Shape::Float(f)) => f == 0.0,
                (Kind::String, Shape::EmptyStr) => true,
                _ => false,
            };
            kani::assert(
                intrinsic,
                "[C06/P4a] schema default silently replaced by the type's intrinsic default",
            );
        }
        (StructPropertyState::Default(WrappedValue(v)), _) => {
            kani::assert(
                Some(v) == default.as_ref(),
                "[C06/P4a] the recorded property default differs from the schema's default",
            );
        }
        (StructPropertyState::Required, _) => {
            kani::assert(false, "[C06/P4a] schema default dropped (property treated as having none)")
        }
    }
    kani::cover!(matches!(state, StructPropertyState::Default(_)), "[must] Default(d) reachable");
    kani::cover!(shape == Shape::Absent, "[must] absent default reachable");
    core::mem::forget(state);
    core::mem::forget(default);
    core::mem::forget(ts);
}

macro_rules! h {
    ($name:ident, $details:expr, $kind:expr) => {
        #[kani::proof]
        #[kani::unwind(24)]
        #[kani::stub(crate::MapType::new, crate::verif_common::stub_map_type_new)]
        #[kani::stub(crate::util::sanitize, crate::verif_common::stub_sanitize)]
        fn $name() {
            check($details, $kind)
        }
    };
}

h!(c06_has_default_option, Some(TypeEntryDetails::Option(TypeId(7))), Kind::Option);
h!(c06_has_default_vec, Some(TypeEntryDetails::Vec(TypeId(7))), Kind::Vec);
h!(c06_has_default_map, Some(TypeEntryDetails::Map(TypeId(7), TypeId(8))), Kind::Map);
h!(c06_has_default_unit, Some(TypeEntryDetails::Unit), Kind::Unit);
h!(c06_has_default_boolean, Some(TypeEntryDetails::Boolean), Kind::Boolean);
h!(c06_has_default_integer, Some(TypeEntryDetails::Integer("i64".to_string())), Kind::Integer);
h!(c06_has_default_string, Some(TypeEntryDetails::String), Kind::String);
h!(c06_has_default_float, Some(TypeEntryDetails::Float("f64".to_string())), Kind::Other);
h!(c06_has_default_unresolved, None, Kind::Unresolved);

#[kani::proof]
#[kani::unwind(24)]
#[kani::stub(crate::MapType::new, crate::verif_common::stub_map_type_new)]
#[kani::stub(crate::util::sanitize, crate::verif_common::stub_sanitize)]
fn canary_c06_has_default() {
    let mut ts = empty_type_space();
    let e: TypeEntry = TypeEntryDetails::Boolean.into();
    ts.id_to_entry.insert(TypeId(1), e);
    let d = Value::Bool(true);
    let state = has_default(&mut ts, &TypeId(1), Some(&d));
    kani::assert(
        !matches!(state, StructPropertyState::Default(_)),
        "[CANARY] a `true` default is never recorded",
    );
    core::mem::forget(state);
    core::mem::forget(ts);
}
