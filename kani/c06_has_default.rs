// @unit c06_has_default property=C06 attach=typify-impl/src/structs.rs
// @h c06_has_default_option_absent tier=both
// @h c06_has_default_option_null tier=both
// @h c06_has_default_option_bool tier=thorough
// @h c06_has_default_option_numbers tier=thorough
// @h c06_has_default_option_strings tier=thorough
// @h c06_has_default_option_empty_array tier=native
// @h c06_has_default_option_array1 tier=native
// @h c06_has_default_option_empty_object tier=thorough
// @h c06_has_default_vec_absent tier=both
// @h c06_has_default_vec_null tier=thorough
// @h c06_has_default_vec_bool tier=thorough
// @h c06_has_default_vec_numbers tier=thorough
// @h c06_has_default_vec_strings tier=thorough
// @h c06_has_default_vec_empty_array tier=native
// @h c06_has_default_vec_array1 tier=native
// @h c06_has_default_vec_empty_object tier=thorough
// @h c06_has_default_map_absent tier=both
// @h c06_has_default_map_null tier=thorough
// @h c06_has_default_map_bool tier=thorough
// @h c06_has_default_map_numbers tier=thorough
// @h c06_has_default_map_strings tier=thorough
// @h c06_has_default_map_empty_array tier=native
// @h c06_has_default_map_array1 tier=native
// @h c06_has_default_map_empty_object tier=both
// @h c06_has_default_map_object1 tier=native
// @h c06_has_default_option_object1 tier=native
// @h c06_has_default_unit_absent tier=both
// @h c06_has_default_unit_null tier=thorough
// @h c06_has_default_unit_bool tier=thorough
// @h c06_has_default_unit_numbers tier=thorough
// @h c06_has_default_unit_strings tier=thorough
// @h c06_has_default_unit_empty_array tier=native
// @h c06_has_default_unit_array1 tier=native
// @h c06_has_default_unit_empty_object tier=thorough
// @h c06_has_default_boolean_absent tier=thorough
// @h c06_has_default_boolean_null tier=thorough
// @h c06_has_default_boolean_bool tier=both
// @h c06_has_default_boolean_numbers tier=thorough
// @h c06_has_default_boolean_strings tier=thorough
// @h c06_has_default_boolean_empty_array tier=native
// @h c06_has_default_boolean_array1 tier=native
// @h c06_has_default_boolean_empty_object tier=thorough
// @h c06_has_default_integer_absent tier=thorough
// @h c06_has_default_integer_null tier=thorough
// @h c06_has_default_integer_bool tier=thorough
// @h c06_has_default_integer_numbers tier=both
// @h c06_has_default_integer_strings tier=thorough
// @h c06_has_default_integer_empty_array tier=native
// @h c06_has_default_integer_array1 tier=native
// @h c06_has_default_integer_empty_object tier=thorough
// @h c06_has_default_string_absent tier=thorough
// @h c06_has_default_string_null tier=thorough
// @h c06_has_default_string_bool tier=thorough
// @h c06_has_default_string_numbers tier=thorough
// @h c06_has_default_string_strings tier=both
// @h c06_has_default_string_empty_array tier=native
// @h c06_has_default_string_array1 tier=native
// @h c06_has_default_string_empty_object tier=thorough
// @h c06_has_default_float_absent tier=thorough
// @h c06_has_default_float_null tier=thorough
// @h c06_has_default_float_bool tier=thorough
// @h c06_has_default_float_numbers tier=both
// @h c06_has_default_float_strings tier=thorough
// @h c06_has_default_float_empty_array tier=native
// @h c06_has_default_float_array1 tier=native
// @h c06_has_default_float_empty_object tier=thorough
// @h c06_has_default_unresolved_absent tier=both
// @h c06_has_default_unresolved_null tier=thorough
// @h c06_has_default_unresolved_bool tier=both
// @h c06_has_default_unresolved_numbers tier=thorough
// @h c06_has_default_unresolved_strings tier=thorough
// @h c06_has_default_unresolved_empty_array tier=native
// @h c06_has_default_unresolved_array1 tier=native
// @h c06_has_default_unresolved_empty_object tier=thorough
// @canary canary_c06_has_default
// @native-canary canary_c06_has_default
//
// C06 -- classification of a property default (`structs::has_default`).
//
// "The value produced serializes to the schema's default ... never silently replaced by a
// different value." A non-required property becomes
//   Optional       : plain `#[serde(default)]`  -> the realised default is the TYPE's default
//   Default(d)     : a default function renders d
//   Required       : no default; the caller wraps the type in Option
// so:
//   P4a with a schema default d:  Optional  ==> d IS the kind's intrinsic default
//        (null / [] / {} / false / 0 / "");  Default(d') ==> d' == d;  never Required
//   P4b without a schema default: Optional <==> the kind is Option, Vec, Map or Unit;
//        otherwise Required
//
// ARRAY defaults (`[]`, `[null]`) and a NON-EMPTY object default are not proved: no result in
// 25 minutes even for `[]` on a Vec (cause not found), and cloning a string-keyed B-tree does
// not terminate. Their harnesses draw no symbolic value and are executed natively against the
// real code instead (`tier=native`, bounded stand-in, never counted as proved).
//
// The property's type is looked up in a one-entry id_to_entry; the kind is concrete per
// harness, the default value is symbolic over the shapes of `any_default`.

use super::*;
use crate::type_entry::{TypeEntry, TypeEntryDetails, WrappedValue};
use crate::verif_common::{any_finite, empty_type_space};
use serde_json::Value;

#[derive(Clone, Copy, PartialEq)]
enum Shape {
    Absent,
    Null,
    Bool(bool),
    PosInt(u64),
    NegInt(i64),
    Float(f64),
    EmptyStr,
    Str,
    EmptyArray,
    Array1,
    EmptyObject,
    Object1,
}

/// `group` is concrete per harness and fixes the DISCRIMINANT of the JSON value (only payloads
/// are symbolic): has_default clones the value, `Value::clone` is recursive, and with a
/// symbolic discriminant CBMC unwinds the recursion through the array / object arms on every
/// path (no result in 25 min).
fn any_default(group: u8) -> (Option<Value>, Shape) {
    match group {
        0 => (None, Shape::Absent),
        1 => (Some(Value::Null), Shape::Null),
        2 => {
            let b: bool = kani::any();
            (Some(Value::Bool(b)), Shape::Bool(b))
        }
        3 => {
            let sel: u8 = kani::any();
            if sel == 0 {
                let u: u64 = kani::any();
                (Some(Value::Number(serde_json::Number::from(u))), Shape::PosInt(u))
            } else if sel == 1 {
                let i: i64 = kani::any();
                kani::assume(i < 0);
                (Some(Value::Number(serde_json::Number::from(i))), Shape::NegInt(i))
            } else {
                let f = any_finite();
                (
                    Some(Value::Number(serde_json::Number::from_f64(f).unwrap())),
                    Shape::Float(f),
                )
            }
        }
        4 => {
            if kani::any() {
                (Some(Value::String(String::new())), Shape::EmptyStr)
            } else {
                (Some(Value::String(String::from("x"))), Shape::Str)
            }
        }
        5 => (Some(Value::Array(Vec::new())), Shape::EmptyArray),
        6 => (Some(Value::Array(vec![Value::Null])), Shape::Array1),
        8 => {
            // a NON-empty object default is out of CBMC's reach: has_default clones it, and
            // cloning a string-keyed B-tree does not terminate (15 min). Only executed natively.
            let mut m = serde_json::Map::new();
            m.insert(String::from("k"), Value::Bool(true));
            (Some(Value::Object(m)), Shape::Object1)
        }
        _ => (Some(Value::Object(serde_json::Map::new())), Shape::EmptyObject),
    }
}

#[derive(Clone, Copy, PartialEq)]
enum Kind {
    Option,
    Vec,
    Map,
    Unit,
    Boolean,
    Integer,
    String,
    Other,
    Unresolved,
}

fn check(details: Option<TypeEntryDetails>, kind: Kind, group: u8) {
    let mut ts = empty_type_space();
    let id = TypeId(1);
    if let Some(d) = details {
        let e: TypeEntry = d.into();
        ts.id_to_entry.insert(TypeId(1), e);
    }
    let (default, shape) = any_default(group);
    let state = has_default(&mut ts, &id, default.as_ref());
    match (&state, shape) {
        (StructPropertyState::Optional, Shape::Absent) => kani::assert(
            matches!(kind, Kind::Option | Kind::Vec | Kind::Map | Kind::Unit),
            "[C06/P4b] a property without default is left non-optional-typed and `#[serde(default)]` although its type has no intrinsic default",
        ),
        (StructPropertyState::Required, Shape::Absent) => kani::assert(
            !matches!(kind, Kind::Option | Kind::Vec | Kind::Map | Kind::Unit),
            "[C06/P4b] Option / Vec / Map / Unit property without default is wrapped in another Option",
        ),
        (StructPropertyState::Default(_), Shape::Absent) => {
            kani::assert(false, "[C06/P4b] a default value invented for a property that has none")
        }
        (StructPropertyState::Optional, s) => {
            let intrinsic = match (kind, s) {
                (Kind::Option, Shape::Null) => true,
                (Kind::Vec, Shape::EmptyArray) => true,
                (Kind::Map, Shape::EmptyObject) => true,
                (Kind::Boolean, Shape::Bool(b)) => !b,
                (Kind::Integer, Shape::PosInt(u)) => u == 0,
                (Kind::Integer, Shape::Float(f)) => f == 0.0,
                (Kind::String, Shape::EmptyStr) => true,
                _ => false,
            };
            kani::assert(
                intrinsic,
                "[C06/P4a] schema default silently replaced by the type's intrinsic default",
            );
        }
        (StructPropertyState::Default(WrappedValue(v)), s) => {
            // for a non-empty array only the shape and the element are compared (cheaper than the
            // derived deep equality)
            let same = match s {
                Shape::Array1 => matches!(v, Value::Array(a) if a.len() == 1 && a[0].is_null()),
                _ => Some(v) == default.as_ref(),
            };
            kani::assert(
                same,
                "[C06/P4a] the recorded property default differs from the schema's default",
            );
        }
        (StructPropertyState::Required, _) => {
            kani::assert(false, "[C06/P4a] schema default dropped (property treated as having none)")
        }
    }
    kani::cover!(matches!(state, StructPropertyState::Default(_)), "[info] Default(d) reachable");
    core::mem::forget(state);
    core::mem::forget(default);
    core::mem::forget(ts);
}

macro_rules! h {
    ($name:ident, $details:expr, $kind:expr, $group:expr) => {
        #[kani::proof]
        #[kani::unwind(24)]
        #[kani::stub(crate::MapType::new, crate::verif_common::stub_map_type_new)]
        #[kani::stub(crate::util::sanitize, crate::verif_common::stub_sanitize)]
        fn $name() {
            check($details, $kind, $group)
        }
    };
}

h!(c06_has_default_option_absent, Some(TypeEntryDetails::Option(TypeId(7))), Kind::Option, 0);
h!(c06_has_default_option_null, Some(TypeEntryDetails::Option(TypeId(7))), Kind::Option, 1);
h!(c06_has_default_option_bool, Some(TypeEntryDetails::Option(TypeId(7))), Kind::Option, 2);
h!(c06_has_default_option_numbers, Some(TypeEntryDetails::Option(TypeId(7))), Kind::Option, 3);
h!(c06_has_default_option_strings, Some(TypeEntryDetails::Option(TypeId(7))), Kind::Option, 4);
h!(c06_has_default_option_empty_array, Some(TypeEntryDetails::Option(TypeId(7))), Kind::Option, 5);
h!(c06_has_default_option_array1, Some(TypeEntryDetails::Option(TypeId(7))), Kind::Option, 6);
h!(c06_has_default_option_empty_object, Some(TypeEntryDetails::Option(TypeId(7))), Kind::Option, 7);
h!(c06_has_default_vec_absent, Some(TypeEntryDetails::Vec(TypeId(7))), Kind::Vec, 0);
h!(c06_has_default_vec_null, Some(TypeEntryDetails::Vec(TypeId(7))), Kind::Vec, 1);
h!(c06_has_default_vec_bool, Some(TypeEntryDetails::Vec(TypeId(7))), Kind::Vec, 2);
h!(c06_has_default_vec_numbers, Some(TypeEntryDetails::Vec(TypeId(7))), Kind::Vec, 3);
h!(c06_has_default_vec_strings, Some(TypeEntryDetails::Vec(TypeId(7))), Kind::Vec, 4);
h!(c06_has_default_vec_empty_array, Some(TypeEntryDetails::Vec(TypeId(7))), Kind::Vec, 5);
h!(c06_has_default_vec_array1, Some(TypeEntryDetails::Vec(TypeId(7))), Kind::Vec, 6);
h!(c06_has_default_vec_empty_object, Some(TypeEntryDetails::Vec(TypeId(7))), Kind::Vec, 7);
h!(c06_has_default_map_absent, Some(TypeEntryDetails::Map(TypeId(7), TypeId(8))), Kind::Map, 0);
h!(c06_has_default_map_null, Some(TypeEntryDetails::Map(TypeId(7), TypeId(8))), Kind::Map, 1);
h!(c06_has_default_map_bool, Some(TypeEntryDetails::Map(TypeId(7), TypeId(8))), Kind::Map, 2);
h!(c06_has_default_map_numbers, Some(TypeEntryDetails::Map(TypeId(7), TypeId(8))), Kind::Map, 3);
h!(c06_has_default_map_strings, Some(TypeEntryDetails::Map(TypeId(7), TypeId(8))), Kind::Map, 4);
h!(c06_has_default_map_empty_array, Some(TypeEntryDetails::Map(TypeId(7), TypeId(8))), Kind::Map, 5);
h!(c06_has_default_map_array1, Some(TypeEntryDetails::Map(TypeId(7), TypeId(8))), Kind::Map, 6);
h!(c06_has_default_map_empty_object, Some(TypeEntryDetails::Map(TypeId(7), TypeId(8))), Kind::Map, 7);
h!(c06_has_default_map_object1, Some(TypeEntryDetails::Map(TypeId(7), TypeId(8))), Kind::Map, 8);
h!(c06_has_default_option_object1, Some(TypeEntryDetails::Option(TypeId(7))), Kind::Option, 8);
h!(c06_has_default_unit_absent, Some(TypeEntryDetails::Unit), Kind::Unit, 0);
h!(c06_has_default_unit_null, Some(TypeEntryDetails::Unit), Kind::Unit, 1);
h!(c06_has_default_unit_bool, Some(TypeEntryDetails::Unit), Kind::Unit, 2);
h!(c06_has_default_unit_numbers, Some(TypeEntryDetails::Unit), Kind::Unit, 3);
h!(c06_has_default_unit_strings, Some(TypeEntryDetails::Unit), Kind::Unit, 4);
h!(c06_has_default_unit_empty_array, Some(TypeEntryDetails::Unit), Kind::Unit, 5);
h!(c06_has_default_unit_array1, Some(TypeEntryDetails::Unit), Kind::Unit, 6);
h!(c06_has_default_unit_empty_object, Some(TypeEntryDetails::Unit), Kind::Unit, 7);
h!(c06_has_default_boolean_absent, Some(TypeEntryDetails::Boolean), Kind::Boolean, 0);
h!(c06_has_default_boolean_null, Some(TypeEntryDetails::Boolean), Kind::Boolean, 1);
h!(c06_has_default_boolean_bool, Some(TypeEntryDetails::Boolean), Kind::Boolean, 2);
h!(c06_has_default_boolean_numbers, Some(TypeEntryDetails::Boolean), Kind::Boolean, 3);
h!(c06_has_default_boolean_strings, Some(TypeEntryDetails::Boolean), Kind::Boolean, 4);
h!(c06_has_default_boolean_empty_array, Some(TypeEntryDetails::Boolean), Kind::Boolean, 5);
h!(c06_has_default_boolean_array1, Some(TypeEntryDetails::Boolean), Kind::Boolean, 6);
h!(c06_has_default_boolean_empty_object, Some(TypeEntryDetails::Boolean), Kind::Boolean, 7);
h!(c06_has_default_integer_absent, Some(TypeEntryDetails::Integer("i64".to_string())), Kind::Integer, 0);
h!(c06_has_default_integer_null, Some(TypeEntryDetails::Integer("i64".to_string())), Kind::Integer, 1);
h!(c06_has_default_integer_bool, Some(TypeEntryDetails::Integer("i64".to_string())), Kind::Integer, 2);
h!(c06_has_default_integer_numbers, Some(TypeEntryDetails::Integer("i64".to_string())), Kind::Integer, 3);
h!(c06_has_default_integer_strings, Some(TypeEntryDetails::Integer("i64".to_string())), Kind::Integer, 4);
h!(c06_has_default_integer_empty_array, Some(TypeEntryDetails::Integer("i64".to_string())), Kind::Integer, 5);
h!(c06_has_default_integer_array1, Some(TypeEntryDetails::Integer("i64".to_string())), Kind::Integer, 6);
h!(c06_has_default_integer_empty_object, Some(TypeEntryDetails::Integer("i64".to_string())), Kind::Integer, 7);
h!(c06_has_default_string_absent, Some(TypeEntryDetails::String), Kind::String, 0);
h!(c06_has_default_string_null, Some(TypeEntryDetails::String), Kind::String, 1);
h!(c06_has_default_string_bool, Some(TypeEntryDetails::String), Kind::String, 2);
h!(c06_has_default_string_numbers, Some(TypeEntryDetails::String), Kind::String, 3);
h!(c06_has_default_string_strings, Some(TypeEntryDetails::String), Kind::String, 4);
h!(c06_has_default_string_empty_array, Some(TypeEntryDetails::String), Kind::String, 5);
h!(c06_has_default_string_array1, Some(TypeEntryDetails::String), Kind::String, 6);
h!(c06_has_default_string_empty_object, Some(TypeEntryDetails::String), Kind::String, 7);
h!(c06_has_default_float_absent, Some(TypeEntryDetails::Float("f64".to_string())), Kind::Other, 0);
h!(c06_has_default_float_null, Some(TypeEntryDetails::Float("f64".to_string())), Kind::Other, 1);
h!(c06_has_default_float_bool, Some(TypeEntryDetails::Float("f64".to_string())), Kind::Other, 2);
h!(c06_has_default_float_numbers, Some(TypeEntryDetails::Float("f64".to_string())), Kind::Other, 3);
h!(c06_has_default_float_strings, Some(TypeEntryDetails::Float("f64".to_string())), Kind::Other, 4);
h!(c06_has_default_float_empty_array, Some(TypeEntryDetails::Float("f64".to_string())), Kind::Other, 5);
h!(c06_has_default_float_array1, Some(TypeEntryDetails::Float("f64".to_string())), Kind::Other, 6);
h!(c06_has_default_float_empty_object, Some(TypeEntryDetails::Float("f64".to_string())), Kind::Other, 7);
h!(c06_has_default_unresolved_absent, None, Kind::Unresolved, 0);
h!(c06_has_default_unresolved_null, None, Kind::Unresolved, 1);
h!(c06_has_default_unresolved_bool, None, Kind::Unresolved, 2);
h!(c06_has_default_unresolved_numbers, None, Kind::Unresolved, 3);
h!(c06_has_default_unresolved_strings, None, Kind::Unresolved, 4);
h!(c06_has_default_unresolved_empty_array, None, Kind::Unresolved, 5);
h!(c06_has_default_unresolved_array1, None, Kind::Unresolved, 6);
h!(c06_has_default_unresolved_empty_object, None, Kind::Unresolved, 7);

#[kani::proof]
#[kani::unwind(24)]
#[kani::stub(crate::MapType::new, crate::verif_common::stub_map_type_new)]
#[kani::stub(crate::util::sanitize, crate::verif_common::stub_sanitize)]
fn canary_c06_has_default() {
    let mut ts = empty_type_space();
    let e: TypeEntry = TypeEntryDetails::Boolean.into();
    ts.id_to_entry.insert(TypeId(1), e);
    let d = Value::Bool(true);
    let state = has_default(&mut ts, &TypeId(1), Some(&d));
    kani::assert(
        !matches!(state, StructPropertyState::Default(_)),
        "[CANARY] a `true` default is never recorded",
    );
    core::mem::forget(state);
    core::mem::forget(ts);
}
