// @unit c13_policy property=C13 attach=typify-impl/src/rust_extension.rs
// @h c13_unconfigured tier=both bounded=enumerated-literal-crate-and-path
// @h c13_any tier=off bounded=enumerated-literal-crate-and-path
// @h c13_any_renamed tier=off bounded=enumerated-literal-crate-and-path
// @h c13_never tier=off bounded=enumerated-literal-crate-and-path
// @h c13_version_satisfied tier=off bounded=enumerated-literal-crate-and-path,one-requirement-version-pair
// @h c13_version_unsatisfied tier=off bounded=enumerated-literal-crate-and-path,one-requirement-version-pair
// @h c13_version_renamed tier=off bounded=enumerated-literal-crate-and-path,one-requirement-version-pair
// @h c13_hyphenated_crate tier=both bounded=enumerated-literal-crate-and-path
// @h c13_no_path_separator tier=both bounded=enumerated-literal-crate-and-path
// @h c13_first_segment_is_only_a_prefix tier=both bounded=enumerated-literal-crate-and-path
// @h c13_configured_table_literals tier=native bounded=enumerated-literal-crate-and-path,requirement-^1.0,versions-1.2.3/2.0.0/1.2.3-rc.1,all-3-policies
// @canary canary_c13_policy
// @native-canary canary_c13_policy_native
//
// C13 -- the crate/version policy of the x-rust-type extension, on the policy slice of
// `convert_rust_extension` extracted mechanically (lib/c13_prepare.py). The slice's result
// None means "generate the type from the schema", Some(p) "substitute the external path p".
//
//   P1  crate unconfigured: substituted <==> the unknown-crate policy is Allow, path unchanged
//   P2  crate configured `*`: substituted under EVERY unknown-crate policy
//   P3  crate configured `!`: never substituted
//   P4  crate configured with a version: substituted <==> the version satisfies the
//       extension's requirement (semver's `matches`, trusted)
//   P5  a configured rename replaces exactly the path's first segment (hyphens of the new
//       name become underscores); without a rename the path is unchanged
//   P6  a hyphenated crate name is compared with the path's first segment after replacing
//       hyphens by underscores; a path without `::` is never substituted
//
// NOT DECIDED: every cell with a CONFIGURED crate (P2-P5). Their harnesses are kept below with
// `tier=off`: symbolic execution of the slice does not finish within 15 minutes once
// `settings.crates.get(..)` returns an entry, for a reason that was not found (the same
// B-tree insert + get alone verifies in 57 s).
//
// Crate names, paths and the requirement/version pair are literals (one harness per cell of
// the configuration table: enumerated, labelled bounded); the unknown-crate policy is
// symbolic in every harness. The requirement is built as a value (no parsing).

use super::*;
use crate::verif_common::empty_type_space;
use crate::{CrateSpec, UnknownPolicy};

fn any_policy() -> UnknownPolicy {
    let k: u8 = kani::any();
    match k {
        0 => UnknownPolicy::Generate,
        1 => UnknownPolicy::Allow,
        _ => UnknownPolicy::Deny,
    }
}

/// `^1.0`
fn req_caret_1_0() -> semver::VersionReq {
    semver::VersionReq {
        comparators: vec![semver::Comparator {
            op: semver::Op::Caret,
            major: 1,
            minor: Some(0),
            patch: None,
            pre: semver::Prerelease::EMPTY,
        }],
    }
}

/// config: 0 absent, 1 Any, 2 Never, 3 Version(1.2.3), 4 Version(2.0.0), 5 Version(1.2.3-rc.1)
fn run(
    config: u8,
    rename: Option<&str>,
    crate_name: &str,
    path: &str,
) -> (Option<String>, UnknownPolicy) {
    run_with(config, rename, crate_name, path, any_policy())
}

fn run_with(
    config: u8,
    rename: Option<&str>,
    crate_name: &str,
    path: &str,
    policy: UnknownPolicy,
) -> (Option<String>, UnknownPolicy) {
    let mut ts = empty_type_space();
    ts.settings.unknown_crates = policy;
    if config != 0 {
        let version = match config {
            1 => CrateVers::Any,
            2 => CrateVers::Never,
            3 => CrateVers::Version(semver::Version::new(1, 2, 3)),
            4 => CrateVers::Version(semver::Version::new(2, 0, 0)),
            _ => CrateVers::Version(semver::Version {
                major: 1,
                minor: 2,
                patch: 3,
                pre: semver::Prerelease::new("rc.1").unwrap(),
                build: semver::BuildMetadata::EMPTY,
            }),
        };
        ts.settings.crates.insert(
            String::from("uuid"),
            CrateSpec {
                version,
                rename: rename.map(String::from),
            },
        );
    }
    let schema = SchemaObject::default();
    let r = ts.verif_slice_rust_ext_policy(
        &schema,
        String::from(crate_name),
        req_caret_1_0(),
        String::from(path),
    );
    core::mem::forget(ts);
    core::mem::forget(schema);
    (r, policy)
}

macro_rules! stubs {
    (fn $name:ident() $body:block) => {
        #[kani::proof]
        #[kani::unwind(24)]
        #[kani::stub(crate::MapType::new, crate::verif_common::stub_map_type_new)]
        #[kani::stub(crate::util::sanitize, crate::verif_common::stub_sanitize)]
        #[kani::stub(regress::Regex::new, crate::verif_common::stub_regex_new)]
        fn $name() $body
    };
}

stubs! {
    fn c13_unconfigured() {
        let (r, policy) = run(0, None, "uuid", "uuid::Uuid");
        match &r {
            Some(p) => {
                kani::assert(
                    policy == UnknownPolicy::Allow,
                    "[C13/P1] an unconfigured crate's type was substituted although the policy is not Allow",
                );
                kani::assert(p == "uuid::Uuid", "[C13/P1] the substituted path was altered");
            }
            None => kani::assert(
                policy != UnknownPolicy::Allow,
                "[C13/P1] an unconfigured crate's type was generated although the policy is Allow",
            ),
        }
        kani::cover!(r.is_some(), "[must] substitution reachable");
        kani::cover!(r.is_none(), "[must] generation reachable");
        core::mem::forget(r);
    }
}

/// BOUNDED STAND-IN for the configured-crate cells (P2-P5), which CBMC does not finish: the
/// whole table on literals, under each of the three unknown-crate policies, executed natively
/// against the real code (`tier=off`); no symbolic value is drawn.
stubs! {
    fn c13_configured_table_literals() {
        let policies = [UnknownPolicy::Generate, UnknownPolicy::Allow, UnknownPolicy::Deny];
        for policy in policies {
            let (r, _) = run_with(1, None, "uuid", "uuid::Uuid", policy.clone());
            kani::assert(r.as_deref() == Some("uuid::Uuid"), "[C13/P2] a crate configured `*` was not substituted with its path unchanged");
            let (r, _) = run_with(1, Some("my-uuid"), "uuid", "uuid::fmt::Simple", policy.clone());
            kani::assert(
                r.as_deref() == Some("my_uuid::fmt::Simple"),
                "[C13/P5] a configured rename did not replace exactly the first path segment",
            );
            let (r, _) = run_with(2, None, "uuid", "uuid::Uuid", policy.clone());
            kani::assert(r.is_none(), "[C13/P3] a crate marked `!` was substituted");
            let (r, _) = run_with(2, Some("other"), "uuid", "uuid::Uuid", policy.clone());
            kani::assert(r.is_none(), "[C13/P3] a crate marked `!` was substituted");
            let (r, _) = run_with(3, None, "uuid", "uuid::Uuid", policy.clone());
            kani::assert(
                r.as_deref() == Some("uuid::Uuid"),
                "[C13/P4] version 1.2.3 satisfies ^1.0 but the type was generated (or its path altered)",
            );
            let (r, _) = run_with(4, None, "uuid", "uuid::Uuid", policy.clone());
            kani::assert(r.is_none(), "[C13/P4] version 2.0.0 does not satisfy ^1.0 but the type was substituted");
            // a pre-release never satisfies a requirement without a pre-release tag
            let (r, _) = run_with(5, None, "uuid", "uuid::Uuid", policy.clone());
            kani::assert(r.is_none(), "[C13/P4] version 1.2.3-rc.1 does not satisfy ^1.0 but the type was substituted");
            let (r, _) = run_with(3, Some("u2"), "uuid", "uuid::Uuid", policy.clone());
            kani::assert(
                r.as_deref() == Some("u2::Uuid"),
                "[C13/P5] a configured rename did not replace exactly the first path segment",
            );
        }
    }
}

stubs! {
    fn canary_c13_policy_native() {
        let (r, _) = run_with(1, None, "uuid", "uuid::Uuid", UnknownPolicy::Deny);
        kani::assert(r.is_none(), "[CANARY] a crate configured `*` is never substituted");
    }
}

stubs! {
    fn c13_any() {
        let (r, _policy) = run(1, None, "uuid", "uuid::Uuid");
        match &r {
            Some(p) => kani::assert(p == "uuid::Uuid", "[C13/P5] path altered without a rename"),
            None => kani::assert(false, "[C13/P2] a crate configured `*` was not substituted"),
        }
        core::mem::forget(r);
    }
}

stubs! {
    fn c13_any_renamed() {
        let (r, _policy) = run(1, Some("my-uuid"), "uuid", "uuid::fmt::Simple");
        match &r {
            Some(p) => kani::assert(
                p == "my_uuid::fmt::Simple",
                "[C13/P5] a configured rename did not replace exactly the first path segment",
            ),
            None => kani::assert(false, "[C13/P2] a crate configured `*` was not substituted"),
        }
        core::mem::forget(r);
    }
}

stubs! {
    fn c13_never() {
        let with_rename: bool = kani::any();
        let (r, _policy) = if with_rename {
            run(2, Some("other"), "uuid", "uuid::Uuid")
        } else {
            run(2, None, "uuid", "uuid::Uuid")
        };
        kani::assert(r.is_none(), "[C13/P3] a crate marked `!` was substituted");
        core::mem::forget(r);
    }
}

stubs! {
    fn c13_version_satisfied() {
        let (r, _policy) = run(3, None, "uuid", "uuid::Uuid");
        match &r {
            Some(p) => kani::assert(p == "uuid::Uuid", "[C13/P5] path altered without a rename"),
            None => kani::assert(false, "[C13/P4] version 1.2.3 satisfies ^1.0 but the type was generated"),
        }
        core::mem::forget(r);
    }
}

stubs! {
    fn c13_version_unsatisfied() {
        let (r, _policy) = run(4, None, "uuid", "uuid::Uuid");
        kani::assert(
            r.is_none(),
            "[C13/P4] version 2.0.0 does not satisfy ^1.0 but the type was substituted",
        );
        core::mem::forget(r);
    }
}

stubs! {
    fn c13_version_renamed() {
        let (r, _policy) = run(3, Some("uuid1"), "uuid", "uuid::Uuid");
        match &r {
            Some(p) => kani::assert(p == "uuid1::Uuid", "[C13/P5] rename not applied to the first segment"),
            None => kani::assert(false, "[C13/P4] version 1.2.3 satisfies ^1.0 but the type was generated"),
        }
        core::mem::forget(r);
    }
}

stubs! {
    fn c13_hyphenated_crate() {
        // the crate `my-crate` is unconfigured: policy decides; its identifier is `my_crate`
        let (r, policy) = run(0, None, "my-crate", "my_crate::T");
        kani::assert(
            r.is_some() == (policy == UnknownPolicy::Allow),
            "[C13/P6] a hyphenated crate name was not matched against the path's first segment",
        );
        core::mem::forget(r);
    }
}

stubs! {
    fn c13_no_path_separator() {
        let (r, _policy) = run(1, None, "uuid", "uuid");
        kani::assert(r.is_none(), "[C13/P6] a path without `::` was substituted");
        core::mem::forget(r);
    }
}

stubs! {
    fn c13_first_segment_is_only_a_prefix() {
        // the path's first segment merely STARTS with the crate's identifier: malformed extension
        let which: bool = kani::any();
        let (r, _policy) = if which {
            run(0, None, "uuid", "uuid2::T")
        } else {
            run(0, None, "ser", "serde_json::Thing")
        };
        kani::assert(
            r.is_none(),
            "[C13/P6] a path whose first segment is not the crate's identifier was substituted",
        );
        core::mem::forget(r);
    }
}

stubs! {
    fn canary_c13_policy() {
        let (r, _policy) = run(0, None, "uuid", "uuid::Uuid");
        kani::assert(r.is_none(), "[CANARY] an unconfigured crate is never substituted");
        core::mem::forget(r);
    }
}
