// @unit c05_multitype property=C05 attach=typify-impl/src/convert.rs
// @h c05_multitype_keeps_string_constraints tier=native bounded=one-literal-multi-type-schema
// @native-canary canary_c05_multitype
//
// C05 -- "constraints represented in a generated type cannot be bypassed": a schema with
// SEVERAL instance types (`"type": ["string", "integer"]`) becomes an untagged enum with one
// variant per type; the keywords that constrain one of the types must travel with that type's
// variant (convert_schema_object's multi-type arm builds the per-type sub-schemas).
//
//   R5  for {"type": ["string","integer"], "minLength": 2, "maxLength": 3, "minimum": 1}: the
//       string variant's type is a constrained newtype carrying exactly minLength 2 /
//       maxLength 3 (not a bare String)
//
// BOUNDED STAND-IN (`tier=native`): the arm collects a B-tree set of the types and goes through
// the conversion driver (untagged_enum -> id_for_schema); the literal instance is executed
// natively against the real code through add_type_with_name. No symbolic value is drawn.

use super::*;
use crate::type_entry::{TypeEntryDetails, TypeEntryNewtypeConstraints, VariantDetails};
use crate::TypeId;

fn variant_types(schema: serde_json::Value) -> (TypeSpace, Vec<TypeId>) {
    let schema: Schema = serde_json::from_value(schema).unwrap();
    let mut ts = TypeSpace::default();
    let id = ts.add_type_with_name(&schema, Some("IdOrCode".to_string())).unwrap();
    let ids = match &ts.id_to_entry.get(&id).unwrap().details {
        TypeEntryDetails::Enum(e) => e
            .variants
            .iter()
            .map(|v| match &v.details {
                VariantDetails::Item(t) => t.clone(),
                _ => panic!("[TOOL] a per-type variant is not a single-item variant"),
            })
            .collect(),
        _ => panic!("[TOOL] the multi-type schema did not become an enum"),
    };
    (ts, ids)
}

fn check(expect_constrained: bool) {
    let (ts, ids) = variant_types(serde_json::json!({
        "type": ["string", "integer"], "minLength": 2, "maxLength": 3, "minimum": 1
    }));
    let mut string_ok = false;
    let mut integer_ok = false;
    for id in &ids {
        match &ts.id_to_entry.get(id).unwrap().details {
            TypeEntryDetails::Newtype(n) => {
                if let TypeEntryNewtypeConstraints::String { max_length, min_length, pattern } = &n.constraints {
                    string_ok = *max_length == Some(3) && *min_length == Some(2) && pattern.is_none();
                }
            }
            TypeEntryDetails::Integer(name) => integer_ok = name.contains("NonZeroU"),
            _ => {}
        }
    }
    kani::assert(
        string_ok == expect_constrained,
        "[C05/R5] the string variant of a multi-type schema does not carry the schema's minLength / maxLength",
    );
    // (the integer variant's minimum is C10's concern, not among C05's constraints: only observed)
    let _ = integer_ok;
}

#[kani::proof]
fn c05_multitype_keeps_string_constraints() {
    check(true)
}

#[kani::proof]
fn canary_c05_multitype() {
    check(false)
}
