// specs.rs -- spec functions, assumed specifications and the vacuity canary for the
// allocator unit (hand-written; everything not marked ASSUMED is checked by Verus).

use vstd::laws_cmp::obeys_cmp;

impl TypeEntry {
    /// Enum / Struct / Newtype entries carry a name; nothing else does.
    pub open spec fn is_named(&self) -> bool {
        self.details is Enum || self.details is Struct || self.details is Newtype
    }

    pub open spec fn spec_name(&self) -> String {
        match self.details {
            TypeEntryDetails::Enum(e) => e.name,
            TypeEntryDetails::Struct(s) => s.name,
            TypeEntryDetails::Newtype(n) => n.name,
            _ => arbitrary(),
        }
    }
}

pub open spec fn details_named(d: TypeEntryDetails) -> bool {
    d is Enum || d is Struct || d is Newtype
}

pub open spec fn ref_target(d: TypeEntryDetails) -> TypeId {
    match d {
        TypeEntryDetails::Reference(t) => t,
        _ => arbitrary(),
    }
}

pub open spec fn option_inner(d: TypeEntryDetails) -> TypeId {
    match d {
        TypeEntryDetails::Option(t) => t,
        _ => arbitrary(),
    }
}

// `impl From<TypeEntryDetails> for TypeEntry` makes no claim through vstd's FromSpec;
// its postcondition is stated on the impl method itself (contracts/from_details.spec).
impl vstd::std_specs::convert::FromSpecImpl<TypeEntryDetails> for TypeEntry {
    open spec fn obeys_from_spec() -> bool {
        false
    }

    open spec fn from_spec(v: TypeEntryDetails) -> Self {
        arbitrary()
    }
}

// ASSUMED: the derived `Clone` impls return a value equal to their argument.
pub assume_specification[ <TypeId as Clone>::clone ](x: &TypeId) -> (r: TypeId)
    ensures
        r == *x,
;

pub assume_specification[ <TypeEntryDetails as Clone>::clone ](x: &TypeEntryDetails) -> (r: TypeEntryDetails)
    ensures
        r == *x,
;

/// ASSUMED (as a precondition of every contract, never as an axiom): the three key types'
/// `Ord` impls are lawful, so the B-tree maps behave as mathematical maps keyed by `==`.
/// For `TypeEntryDetails` this holds only on unnamed kinds (the hand-written `Ord` of
/// SchemaWrapper / WrappedValue says `Equal` for everything); `wf` proves that named kinds
/// and references never become keys of `type_to_id`.
pub open spec fn keys_lawful() -> bool {
    obeys_cmp::<TypeId>() && obeys_cmp::<String>() && obeys_cmp::<TypeEntryDetails>() && obeys_cmp::<RefKey>()
}

impl TypeSpace {
    pub open spec fn ids(&self) -> Map<TypeId, TypeEntry> {
        self.id_to_entry@
    }

    pub open spec fn names(&self) -> Map<String, TypeId> {
        self.name_to_id@
    }

    pub open spec fn structs(&self) -> Map<TypeEntryDetails, TypeId> {
        self.type_to_id@
    }

    pub open spec fn refs(&self) -> Map<RefKey, TypeId> {
        self.ref_to_id@
    }

    /// Representation invariant of the allocator: nothing refers to an identifier that has
    /// not been handed out, and only unnamed, non-reference kinds are structural keys.
    pub open spec fn wf(&self) -> bool {
        &&& self.next_id >= 1
        &&& forall|k: TypeId| #[trigger] self.ids().contains_key(k) ==> k.0 < self.next_id
        &&& forall|n: String| #[trigger] self.names().contains_key(n) ==> self.names()[n].0 < self.next_id
        &&& forall|d: TypeEntryDetails| #[trigger] self.structs().contains_key(d) ==> self.structs()[d].0 < self.next_id
        &&& forall|k: RefKey| #[trigger] self.refs().contains_key(k) ==> self.refs()[k].0 < self.next_id
        &&& forall|d: TypeEntryDetails| #[trigger] self.structs().contains_key(d) ==> !details_named(d) && !(d is Reference)
    }

    /// Index coherence: every structural / by-name index entry points at an entry that has
    /// exactly that structure / name. Broken on purpose by unverified code (`break_cycles`
    /// edits entries in place), so it is claimed only as *preserved*.
    pub open spec fn coherent(&self) -> bool {
        &&& forall|d: TypeEntryDetails| #[trigger] self.structs().contains_key(d) ==>
                self.ids().contains_key(self.structs()[d]) && self.ids()[self.structs()[d]].details == d
    }

    /// The by-name index is exact: every named entry is indexed under its own name at its own
    /// identifier. This implies that no two identifiers carry entries of the same name, i.e.
    /// "the rendered output never contains two definitions of one name" at the level of the
    /// type space. Claimed as *preserved* by every function under contract.
    pub open spec fn names_exact(&self) -> bool {
        forall|k: TypeId| #[trigger] self.ids().contains_key(k) && self.ids()[k].is_named() ==>
            self.names().contains_key(self.ids()[k].spec_name()) && self.names()[self.ids()[k].spec_name()] == k
    }

    pub open spec fn same_state(&self, other: &TypeSpace) -> bool {
        &&& self.next_id == other.next_id
        &&& self.ids() == other.ids()
        &&& self.names() == other.names()
        &&& self.structs() == other.structs()
        &&& self.refs() == other.refs()
    }
}

// ===================================================================================
// ASSUMED contracts of functions that are NOT verified (stand-in declarations with
// external_body; listed in the evidence as trusted). They state what the ingestion
// driver's verified callers rely on -- nothing here is proved.
// ===================================================================================

/// "this entry has been through TypeEntry::finalize" (uninterpreted).
pub uninterp spec fn finalized(e: TypeEntry) -> bool;

/// "break_cycles has cut every containment cycle through an identifier in [lo, hi), starting
/// from the state whose next_id was `next_at_call`" -- an uninterpreted token that only
/// break_cycles' assumed contract establishes, for exactly the range it was given. (It is not
/// a predicate of the entry map because the finalisation loop that follows replaces entries
/// by their finalized clones, which do not change any child.)
pub uninterp spec fn cycles_cut(next_at_call: u64, lo: u64, hi: u64) -> bool;

pub assume_specification[ <TypeEntry as Clone>::clone ](x: &TypeEntry) -> (r: TypeEntry)
    ensures
        r == *x,
;

impl TypeEntryEnum {
    /// ASSUMED: computing an enum's bespoke impl markers changes nothing else of it.
    #[verifier::external_body]
    pub fn finalize(&mut self, type_space: &TypeSpace)
        ensures
            final(self).name == old(self).name,
    {
        unimplemented!()
    }
}

impl TypeEntry {
    /// ASSUMED: validating the defaults leaves the allocator alone (it may only register a
    /// shared default function); success is what "finalized" means.
    #[verifier::external_body]
    pub fn check_defaults(&self, type_space: &mut TypeSpace) -> (r: Result<()>)
        ensures
            final(type_space).same_state(old(type_space)),
            r is Ok ==> finalized(*self),
    {
        unimplemented!()
    }
}

impl TypeSpace {
    /// ASSUMED (the conversion driver, convert.rs -- not verified): converting a schema
    /// allocates zero or more fresh identifiers, gives every one of them an entry, never
    /// touches an entry that existed before, does not exhaust the identifier space, and
    /// returns an entry whose reference target (if it is a reference) has been handed out.
    #[verifier::external_body]
    pub fn convert_schema<'a>(&mut self, type_name: Name, schema: &'a Schema) -> (r: Result<(TypeEntry, &'a Option<Box<Metadata>>)>)
        requires
            old(self).wf(),
            keys_lawful(),
        ensures
            r is Ok ==> {
                &&& final(self).wf()
                &&& old(self).next_id <= final(self).next_id < u64::MAX
                &&& (r->Ok_0.0.details is Reference ==> ref_target(r->Ok_0.0.details).0 < final(self).next_id)
                &&& forall|k: TypeId| #[trigger] old(self).ids().contains_key(k) ==>
                        final(self).ids().contains_key(k) && final(self).ids()[k] == old(self).ids()[k]
                &&& forall|i: u64| old(self).next_id <= i < final(self).next_id ==> #[trigger] final(self).ids().contains_key(TypeId(i))
                &&& old(self).names_exact() ==> final(self).names_exact()
            },
    {
        unimplemented!()
    }

    /// ASSUMED: cycle breaking cuts the cycles through the range it is given, may allocate
    /// Box entries, and leaves identifiers below the range alone.
    #[verifier::external_body]
    pub fn break_cycles(&mut self, range: std::ops::Range<u64>)
        requires
            old(self).wf(),
            keys_lawful(),
            range.end <= old(self).next_id,
        ensures
            final(self).wf(),
            old(self).next_id <= final(self).next_id,
            cycles_cut(old(self).next_id, range.start, range.end),
            forall|k: TypeId| #![trigger old(self).ids().contains_key(k)] #![trigger final(self).ids().contains_key(k)]
                old(self).ids().contains_key(k) ==> final(self).ids().contains_key(k),
            forall|k: TypeId| #[trigger] old(self).ids().contains_key(k) && k.0 < range.start ==>
                final(self).ids()[k] == old(self).ids()[k],
            forall|i: u64| old(self).next_id <= i < final(self).next_id ==> #[trigger] final(self).ids().contains_key(TypeId(i)),
            old(self).names_exact() ==> final(self).names_exact(),
    {
        unimplemented!()
    }
}

/// Vacuity canary: must FAIL. If the preconditions used by the contracts were contradictory
/// (or Verus generated no obligations), this would verify and the check reports UNDECIDED.
proof fn canary_preconditions_are_consistent(ts: &TypeSpace, ty: TypeEntry)
    requires
        ts.wf(),
        ts.next_id < u64::MAX,
        keys_lawful(),
        ts.coherent(),
    ensures
        false,
{
}

