// prelude.rs -- hand-written, TRUSTED declarations for the Verus unit (listed in the evidence).
// Everything above the cut line is emitted outside verus!{}.
#![allow(dead_code, unused_imports, unused_variables)]
use std::collections::{BTreeMap, BTreeSet};
use vstd::prelude::*;

// D4: opaque stand-ins for the two foreign types the data types mention. They carry the
// derives the data types need from them; nothing about their content is used.
#[derive(Debug, Clone, PartialEq)]
pub struct Schema;
pub mod serde_json {
    #[derive(Debug, Clone, PartialEq, Eq)]
    pub struct Value;
}

// opaque stand-ins for the error type, the crate's Result alias and schemars' Metadata
// the crate's error type reduced to the one variant the extracted code constructs
pub enum Error {
    InvalidTypeId,
    Other,
}
pub type Result<T> = std::result::Result<T, Error>;
pub struct Metadata {
    pub default: Option<serde_json::Value>,
}

// D3: TypeSpace with the five allocator fields only.
pub struct TypeSpace {
    pub next_id: u64,
    pub id_to_entry: BTreeMap<TypeId, TypeEntry>,
    pub type_to_id: BTreeMap<TypeEntryDetails, TypeId>,
    pub name_to_id: BTreeMap<String, TypeId>,
    pub ref_to_id: BTreeMap<RefKey, TypeId>,
}

#[derive(Debug, Clone, Eq, PartialEq, Ord, PartialOrd)]
pub enum RefKey {
    Root,
    Def(String),
}

// ---8<--- inside verus ---8<---
#[verifier::external_type_specification]
#[verifier::external_body]
pub struct ExSchema(Schema);

#[verifier::external_type_specification]
#[verifier::external_body]
pub struct ExValue(serde_json::Value);

#[verifier::external_type_specification]
pub struct ExError(Error);

#[verifier::external_type_specification]
pub struct ExMetadata(Metadata);

#[verifier::external_type_specification]
pub struct ExTypeSpace(TypeSpace);

#[verifier::external_type_specification]
pub struct ExRefKey(RefKey);

