#!/usr/bin/env python3
"""Mechanical extraction of the TypeSpace identifier allocator for Verus.

usage: extract.py <repo root> <out file> [--report <json>]

Reads the CURRENT text of
    typify-impl/src/lib.rs        struct TypeId, enum TypeSpaceImpl,
                                  TypeSpace::{assign, assign_type, id_to_option,
                                  type_to_option, id_to_box}
    typify-impl/src/type_entry.rs every data type between `struct SchemaWrapper`
                                  and `enum StructPropertyState` (with the
                                  hand-written Eq/Ord/PartialOrd impls of
                                  SchemaWrapper and WrappedValue),
                                  TypeEntry::name, impl From<TypeEntryDetails>
and writes one Verus file in which
  * the data types and their hand-written impls stand OUTSIDE verus!{} -- they
    are /repo's text, derives included -- and are registered inside verus!{}
    with external_type_specification (fields and variants stay visible);
  * the functions stand INSIDE verus!{}, each with the contract text of
    contracts/<fn>.spec spliced between signature and body. Function bodies are
    byte-identical to /repo's after the drop list below.

Drop list (nothing else is changed; the report counts every edit):
  D1 comment and doc-comment lines, #[allow(..)] and #[non_exhaustive] attributes
  D2 `pub(crate)` widened to `pub`
  D3 `struct TypeSpace` re-declared with the five allocator fields only; the
     extractor fails (exit 2) if an extracted body mentions another field
  D4 `schemars::schema::Schema` and `serde_json::Value` declared as opaque
     structs with the derives the real ones have; `schemars::schema::Metadata`
     reduced to its `default` field, the only one the extracted code reads
     (prelude.rs)
  D5 info!/debug!/warn!/trace! statements removed
  D7 `pub struct TypeId(u64);` is written `pub struct TypeId(pub u64);` so the
     specification can speak about the number; SchemaWrapper and
     TypeEntryNative (private fields) are registered opaquely instead
  D8 the last two statements of `convert_ref_type` (the unconditional
     `name_to_id.insert` and the `id_to_entry.insert`) are copied as a statement
     slice and wrapped as `fn convert_ref_type_tail(&mut self, type_entry, type_id)`;
     the slice text is byte-identical, the wrapper is synthetic
  D9 ghost `proof { assert(..) }` hints from contracts/<fn>.hints are appended at the
     end of a unit-returning body (ghost code is erased from the executable; the
     count is reported)
  D10 loop invariants from contracts/<fn>.loop<k>.inv are spliced between the k-th
     `for` header of a body and its opening brace (the header's ghost iterator is
     named: `for x in e` => `for x in it: e`), and ghost declarations from
     contracts/<fn>.loop<k>.pre (`let ghost n0 = ..;`) on the line before the
     header (specification text; erased)
  D6 a function's return type `-> T` is written `-> (r: T)` (Verus' syntax for
     naming the result in `ensures`); the body is untouched
exit 0 ok, exit 2 lost anchor / body uses something outside the subset.
"""
import hashlib
import json
import os
import re
import sys

sys.path.insert(0, os.path.join(os.path.dirname(os.path.abspath(__file__)), "..", "lib"))
from vcommon import strip_strings_and_comments, find_item, match_brace  # noqa

HERE = os.path.dirname(os.path.abspath(__file__))

DATA_TYPES = [
    # (kind, name, has hand-written cmp impls)
    ("struct", "SchemaWrapper", ("Eq", "Ord", "PartialOrd")),
    ("struct", "TypeEntryEnum", ()),
    ("enum", "TypeEntryEnumImpl", ()),
    ("struct", "TypeEntryStruct", ()),
    ("struct", "TypeEntryNewtype", ()),
    ("enum", "TypeEntryNewtypeConstraints", ()),
    ("struct", "TypeEntryNative", ()),
    ("struct", "WrappedValue", ("Ord", "PartialOrd")),
    ("struct", "TypeEntry", ()),
    ("enum", "TypeEntryDetails", ()),
    ("enum", "EnumTagType", ()),
    ("struct", "Variant", ()),
    ("enum", "VariantDetails", ()),
    ("struct", "StructProperty", ()),
    ("enum", "StructPropertyRename", ()),
    ("enum", "StructPropertyState", ()),
]

# types with private fields: registered opaquely (external_body) -- the allocator never looks inside
OPAQUE = {"SchemaWrapper", "TypeEntryNative"}

ALLOC_FIELDS = ["next_id", "id_to_entry", "type_to_id", "name_to_id", "ref_to_id"]
OTHER_FIELDS = ["definitions", "uses_chrono", "uses_uuid", "uses_serde_json", "uses_regress", "settings", "cache", "defaults"]

FUNCS = ["assign", "assign_type", "id_to_option", "type_to_option", "id_to_box"]


class Lost(Exception):
    pass


class Report:
    def __init__(self):
        self.items = []
        self.extracted_lines = 0
        self.deleted_lines = 0
        self.rewritten = 0  # pub(crate) -> pub token rewrites

    def add(self, name, src_file, text_before, text_after, l1, l2):
        self.items.append({
            "item": name, "file": src_file, "lines": "%d-%d" % (l1, l2),
            "sha256_repo_text": hashlib.sha256(text_before.encode()).hexdigest(),
            "sha256_after_drop_list": hashlib.sha256(text_after.encode()).hexdigest(),
        })


def drop_list(text, rep):
    """Apply D1, D2, D5 to an extracted item."""
    out = []
    before = text.count("\n") + 1
    in_log = 0  # paren depth inside a multi-line info!/debug!/warn!/trace! statement (D5)
    for line in text.split("\n"):
        st = line.strip()
        if in_log:
            cl = strip_strings_and_comments(line)
            in_log += cl.count("(") - cl.count(")")
            if in_log <= 0:
                in_log = 0
            continue
        if re.match(r"(info|debug|warn|trace)!\($", st) or (re.match(r"(info|debug|warn|trace)!\(", st) and not st.endswith(");")):
            cl = strip_strings_and_comments(line)
            in_log = cl.count("(") - cl.count(")")
            continue
        if st.startswith("//"):
            continue
        if re.match(r"#\[(allow|non_exhaustive)\b.*\]$", st):
            continue
        if re.match(r"(info|debug|warn|trace)!\(.*\);$", st):
            continue
        # trailing comment
        clean = strip_strings_and_comments(line)
        k = clean.find("//")
        if k >= 0 and clean[k:].strip() == "" or (k >= 0 and line[k:k + 2] == "//"):
            line = line[:k].rstrip()
            if not line.strip():
                continue
        n = line.count("pub(crate)")
        if n:
            rep.rewritten += n
            line = line.replace("pub(crate)", "pub")
        out.append(line)
    after = len(out)
    rep.extracted_lines += before
    rep.deleted_lines += before - after
    return "\n".join(out)


def with_attrs(src, clean, start):
    """Extend an item's start backwards over its attribute / doc lines."""
    lines_before = src[:start].split("\n")
    # lines_before[-1] is the partial line (indent) before the item
    i = len(lines_before) - 2
    while i >= 0:
        st = lines_before[i].strip()
        if st.startswith("#[") or st.startswith("///") or st.startswith("//"):
            i -= 1
        else:
            break
    new_start = len("\n".join(lines_before[: i + 1])) + (1 if i + 1 > 0 else 0)
    return new_start


def take(src, clean, header_re, name, rep, src_file, lo=0, hi=None, attrs=True):
    m = re.compile(header_re, re.M).search(clean, lo, hi if hi is not None else len(clean))
    if not m:
        raise Lost("anchor not found: %s in %s" % (name, src_file))
    ob = clean.find("{", m.end() - 1)
    semi = clean.find(";", m.end() - 1)
    if semi >= 0 and (ob < 0 or semi < ob):
        end = semi + 1  # tuple struct `struct X(..);`
    else:
        end = match_brace(clean, ob) + 1
    start = with_attrs(src, clean, m.start()) if attrs else m.start()
    text = src[start:end]
    l1 = src.count("\n", 0, start) + 1
    l2 = src.count("\n", 0, end) + 1
    after = drop_list(text, rep)
    rep.add(name, src_file, text, after, l1, l2)
    return after, (start, end)


def split_fn(text):
    """Split extracted fn text into (signature up to but excluding '{', body incl. braces)."""
    clean = strip_strings_and_comments(text)
    ob = clean.find("{")
    sig, body = text[:ob].rstrip(), text[ob:]
    # D6: name the result so the contract can mention it:  `-> T`  =>  `-> (r: T)`
    k = sig.rfind(") ->")
    if k >= 0:
        ret = sig[k + 4:].strip()
        sig = sig[:k + 4] + " (r: " + ret + ")"
    return sig, body


def main():
    repo = sys.argv[1]
    out_path = sys.argv[2]
    report_path = sys.argv[sys.argv.index("--report") + 1] if "--report" in sys.argv else None
    rep = Report()
    try:
        te_path = "typify-impl/src/type_entry.rs"
        lib_path = "typify-impl/src/lib.rs"
        te = open(os.path.join(repo, te_path)).read()
        lib = open(os.path.join(repo, lib_path)).read()
        te_c = strip_strings_and_comments(te)
        lib_c = strip_strings_and_comments(lib)

        outside = []
        names_external = []
        # --- lib.rs: TypeId, TypeSpaceImpl
        t, _ = take(lib, lib_c, r"^pub struct TypeId\b", "TypeId", rep, lib_path)
        # D7: the private field of the tuple struct is made visible to the specification
        if "pub struct TypeId(u64);" not in t:
            raise Lost("TypeId is no longer `pub struct TypeId(u64);`")
        t = t.replace("pub struct TypeId(u64);", "pub struct TypeId(pub u64);")
        rep.rewritten += 1
        outside.append(t)
        names_external.append("TypeId")
        t, _ = take(lib, lib_c, r"^pub struct Type<'a>", "Type", rep, lib_path)
        # D7': the two private fields of `Type` are made visible to the specification
        t = t.replace("    type_space: &'a TypeSpace,", "    pub type_space: &'a TypeSpace,").replace("    type_entry: &'a TypeEntry,", "    pub type_entry: &'a TypeEntry,")
        t = t.replace("#[derive(Debug)]\n", "")
        rep.rewritten += 2
        outside.append(t)
        names_external.append("Type<'a>")
        t, _ = take(lib, lib_c, r"^pub enum TypeSpaceImpl\b", "TypeSpaceImpl", rep, lib_path)
        outside.append(t)
        names_external.append("TypeSpaceImpl")
        t, _ = take(lib, lib_c, r"^pub\(crate\) enum Name\b", "Name", rep, lib_path)
        outside.append(t)
        names_external.append("Name")
        # --- type_entry.rs data types
        for kind, name, cmp_impls in DATA_TYPES:
            t, _ = take(te, te_c, r"^pub(?:\(crate\))? %s %s\b" % (kind, name), name, rep, te_path)
            outside.append(t)
            names_external.append(name)
            if cmp_impls:
                for tr in cmp_impls:
                    t, _ = take(te, te_c, r"^impl %s for %s\b" % (tr, name), "impl %s for %s" % (tr, name), rep, te_path)
                    outside.append(t)

        # --- functions
        fns = {}
        sp = find_item(te, r"^impl From<TypeEntryDetails> for TypeEntry\b", te_c)
        if not sp:
            raise Lost("impl From<TypeEntryDetails> for TypeEntry")
        t, _ = take(te, te_c, r"^    fn from\(details: TypeEntryDetails\) -> Self", "From<TypeEntryDetails>::from", rep, te_path, sp[0], sp[1], attrs=False)
        fns["from_details"] = t
        t, _ = take(te, te_c, r"^    pub\(crate\) fn name\(&self\) -> Option<&String>", "TypeEntry::name", rep, te_path, attrs=False)
        fns["name"] = t
        t, _ = take(te, te_c, r"^    pub\(crate\) fn finalize\(&mut self, type_space: &mut TypeSpace\) -> Result<\(\)>", "TypeEntry::finalize", rep, te_path, attrs=False)
        fns["finalize"] = t
        for f in FUNCS:
            t, _ = take(lib, lib_c, r"^    fn %s\b" % f, "TypeSpace::" + f, rep, lib_path, attrs=False)
            fns[f] = t
            body_clean = strip_strings_and_comments(t)
            for other in OTHER_FIELDS:
                if re.search(r"\bself\s*\.\s*%s\b" % other, body_clean):
                    raise Lost("TypeSpace::%s mentions field `%s` outside the allocator subset" % (f, other))

        # D8: a contiguous statement slice of convert_ref_type (its last two statements: the
        # unconditional by-name index update and the entry insert), wrapped as a function whose
        # parameters are the slice's free variables.
        sp = find_item(lib, r"^    fn convert_ref_type\b", lib_c)
        if not sp:
            raise Lost("fn convert_ref_type")
        body = lib[sp[0]:sp[1]]
        m1 = re.search(r"^        if let Some\(entry_name\) = type_entry\.name\(\) \{\n", body, re.M)
        m2 = re.search(r"^        self\.id_to_entry\.insert\(type_id, type_entry\);\n", body, re.M)
        if not m1 or not m2 or m2.start() < m1.start():
            raise Lost("convert_ref_type tail slice (name index update + entry insert)")
        tail_text = body[m1.start():m2.end()]
        a0 = sp[0] + m1.start()
        l1 = lib.count("\n", 0, a0) + 1
        l2 = l1 + tail_text.count("\n") - 1
        tail_after = drop_list(tail_text.rstrip("\n"), rep)
        rep.add("TypeSpace::convert_ref_type [tail slice]", lib_path, tail_text, tail_after, l1, l2)
        if re.search(r"\bself\s*\.\s*(%s)\b" % "|".join(OTHER_FIELDS), strip_strings_and_comments(tail_after)):
            raise Lost("convert_ref_type tail slice mentions a field outside the allocator subset")
        fns["convert_ref_type_tail"] = ("    fn convert_ref_type_tail(&mut self, type_entry: TypeEntry, type_id: TypeId) {\n"
                                        + tail_after + "\n    }")

        # whole function: the public entry point add_type_with_name
        t, _ = take(lib, lib_c, r"^    pub fn add_type_with_name\b", "TypeSpace::add_type_with_name", rep, lib_path, attrs=False)
        fns["add_type_with_name"] = t
        for other in OTHER_FIELDS:
            if re.search(r"\bself\s*\.\s*%s\b" % other, strip_strings_and_comments(t)):
                raise Lost("add_type_with_name mentions field `%s` outside the allocator subset" % other)
        t, _ = take(te, te_c, r"^    pub\(crate\) fn new\(value: serde_json::Value\) -> Self", "WrappedValue::new", rep, te_path, attrs=False)
        fns["wrapped_value_new"] = t
        t, _ = take(lib, lib_c, r"^    pub fn get_type\(", "TypeSpace::get_type", rep, lib_path, attrs=False)
        fns["get_type"] = t
        t, _ = take(lib, lib_c, r"^    pub fn add_type\(", "TypeSpace::add_type", rep, lib_path, attrs=False)
        fns["add_type"] = t
        t, _ = take(lib, lib_c, r"^    fn id_for_schema\b", "TypeSpace::id_for_schema", rep, lib_path, attrs=False)
        fns["id_for_schema"] = t
        for other in OTHER_FIELDS:
            if re.search(r"\bself\s*\.\s*%s\b" % other, strip_strings_and_comments(t)):
                raise Lost("id_for_schema mentions field `%s` outside the allocator subset" % other)
        # (convert_ref_type as a WHOLE is outside Verus' subset: "match arm containing both a
        # match-guard and a binding by mutable reference" -- only its tail slice is taken, D8)
        # D8: the tail of add_ref_types_impl -- `self.break_cycles(..)` up to the final `Ok(())`
        sp = find_item(lib, r"^    fn add_ref_types_impl\b", lib_c)
        if not sp:
            raise Lost("fn add_ref_types_impl")
        body = lib[sp[0]:sp[1]]
        m1 = re.search(r"^        self\.break_cycles\(", body, re.M)
        m2 = None
        for m2 in re.finditer(r"^        Ok\(\(\)\)\n", body, re.M):
            pass
        if not m1 or not m2 or m2.start() < m1.start():
            raise Lost("add_ref_types_impl tail slice (break_cycles call .. Ok(()))")
        # include the comment lines directly above the call in the slice text (dropped by D1)
        tail2 = body[m1.start():m2.end()]
        a0 = sp[0] + m1.start()
        l1 = lib.count("\n", 0, a0) + 1
        l2 = l1 + tail2.count("\n") - 1
        tail2_after = drop_list(tail2.rstrip("\n"), rep)
        rep.add("TypeSpace::add_ref_types_impl [tail slice]", lib_path, tail2, tail2_after, l1, l2)
        if re.search(r"\bself\s*\.\s*(%s)\b" % "|".join(OTHER_FIELDS), strip_strings_and_comments(tail2_after)):
            raise Lost("add_ref_types_impl tail slice mentions a field outside the allocator subset")
        fns["add_ref_types_tail"] = ("    fn add_ref_types_tail(&mut self, base_id: u64, def_len: u64) -> Result<()> {\n"
                                     + tail2_after + "\n    }")

        def spec(name):
            p = os.path.join(HERE, "contracts", name + ".spec")
            return open(p).read().rstrip() + "\n" if os.path.exists(p) else ""

        ghost_lines = [0]

        def fn_with_contract(key, text):
            sig, body = split_fn(text)
            # D9: ghost proof hints (erased from the executable) appended at the end of a
            # unit-returning body, from contracts/<fn>.hints
            hp = os.path.join(HERE, "contracts", key + ".hints")
            if os.path.exists(hp):
                if ") ->" in sig:
                    raise Lost("hints are only supported for unit-returning functions: " + key)
                hints = open(hp).read().rstrip()
                k = body.rstrip().rfind("}")
                body = body[:k] + "    proof {\n" + "".join("            " + l + "\n" for l in hints.split("\n")) + "        }\n    }"
                ghost_lines[0] += hints.count("\n") + 1
            # D10: loop invariants from contracts/<fn>.loop<k>.inv are spliced between the k-th
            # `for` header and its opening brace (Verus' `for x in e invariant .. { }`)
            k = 0
            out_lines = []
            for line in body.split("\n"):
                mfor = re.match(r"^(\s*)for .* \{$", line)
                if mfor:
                    k += 1
                    ip = os.path.join(HERE, "contracts", "%s.loop%d.inv" % (key, k))
                    pp = os.path.join(HERE, "contracts", "%s.loop%d.pre" % (key, k))
                    if os.path.exists(pp):
                        pre = open(pp).read().rstrip()
                        out_lines += [mfor.group(1) + l for l in pre.split("\n")]
                        ghost_lines[0] += pre.count("\n") + 1
                    if os.path.exists(ip):
                        inv = open(ip).read().rstrip()
                        # name the loop's ghost iterator so the invariant can speak about its end:
                        # `for x in e {`  =>  `for x in it: e`
                        line = re.sub(r"^(\s*for .*? in )", r"\1it: ", line, count=1)
                        line = line[:-1].rstrip() + "\n" + "".join(mfor.group(1) + "    " + l + "\n" for l in inv.split("\n")) + mfor.group(1) + "{"
                        ghost_lines[0] += inv.count("\n") + 1
                out_lines.append(line)
            body = "\n".join(out_lines)
            return sig + "\n" + "".join("        " + l + "\n" if l.strip() else "\n" for l in spec(key).split("\n")) + "    " + body.lstrip()

        prelude = open(os.path.join(HERE, "prelude.rs")).read()
        specs = open(os.path.join(HERE, "specs.rs")).read()

        g = []
        g.append("// GENERATED by /verif/verus/extract.py from /repo's working tree -- do not edit.\n")
        g.append(prelude.split("// ---8<--- inside verus ---8<---")[0])
        g.append("\n// ======== /repo text (data types), outside verus!{} ========\n")
        g.append("\n\n".join(outside))
        g.append("\n\nverus! {\n")
        g.append(prelude.split("// ---8<--- inside verus ---8<---")[1])
        for n in names_external:
            opaque = "#[verifier::external_body]\n" if n in OPAQUE else ""
            if n == "Type<'a>":
                g.append("#[verifier::external_type_specification]\npub struct ExType<'a>(Type<'a>);\n")
                continue
            g.append("#[verifier::external_type_specification]\n%spub struct Ex%s(%s);\n" % (opaque, n, n))
        g.append(specs)
        g.append("\n// ======== /repo text (functions), contracts spliced ========\n")
        # From<TypeEntryDetails> and TypeEntry::name are free functions here: Verus rejects
        # `requires/ensures` on trait impl methods, and impl blocks on external types.
        g.append("impl WrappedValue {\n" + fn_with_contract("wrapped_value_new", fns["wrapped_value_new"]) + "\n}\n\n")
        g.append("impl TypeEntry {\n" + fn_with_contract("name", fns["name"]) + "\n\n" + fn_with_contract("finalize", fns["finalize"]) + "\n}\n\n")
        g.append("impl From<TypeEntryDetails> for TypeEntry {\n" + fn_with_contract("from_details", fns["from_details"]) + "\n}\n\n")
        g.append("impl TypeSpace {\n")
        for f in FUNCS + ["convert_ref_type_tail", "id_for_schema", "add_type_with_name", "add_type", "get_type", "add_ref_types_tail"]:
            g.append(fn_with_contract(f, fns[f]) + "\n\n")
        g.append("}\n")
        g.append("\n// ======== property lemmas over the contracts (verus/lemmas.rs) ========\n")
        g.append(open(os.path.join(HERE, "lemmas.rs")).read())
        g.append("\n} // verus!\n\nfn main() {}\n")
        open(out_path, "w").write("".join(g))
        # the two type_entry.rs functions are emitted by specs.rs wrappers (see there); record their text
        open(out_path + ".fns.json", "w").write(json.dumps(fns, indent=1))
    except Lost as e:
        print("extract: LOST ANCHOR: %s" % e, file=sys.stderr)
        if report_path:
            json.dump({"error": str(e)}, open(report_path, "w"))
        sys.exit(2)
    r = {"items": rep.items, "extracted_lines": rep.extracted_lines, "deleted_lines": rep.deleted_lines,
         "pub_crate_widened": rep.rewritten, "bodies_rewritten": 0, "ghost_hint_lines_inserted": ghost_lines[0]}
    if report_path:
        json.dump(r, open(report_path, "w"), indent=1)
    print("extract: %d items, %d lines extracted, %d deleted (comments/attributes), %d `pub(crate)` widened, 0 bodies rewritten"
          % (len(rep.items), rep.extracted_lines, rep.deleted_lines, rep.rewritten))


if __name__ == "__main__":
    main()
