// lemmas.rs -- the property statements of C16, stated over the CONTRACTS of the functions
// above and checked by Verus (each is a client of the real functions: it sees only their
// requires / ensures, never their bodies).

/// C16: "every type identifier returned keeps resolving to the same name, identifier and
/// structure after later calls" -- for a later add_type / add_type_with_name call.
fn c16_lemma_identifier_keeps_resolving(ts: &mut TypeSpace, id: &TypeId, schema: &Schema, name_hint: Option<String>, with_name: bool)
    requires
        old(ts).wf(),
        keys_lawful(),
        old(ts).ids().contains_key(*id),
    ensures
        true,
{
    let ghost entry_before = ts.ids()[*id];
    let resolves_before = ts.get_type(id).is_ok();
    assert(resolves_before);
    let r = if with_name { ts.add_type_with_name(schema, name_hint) } else { ts.add_type(schema) };
    if r.is_ok() {
        let after = ts.get_type(id);
        // @keeps_resolving_to_the_same_entry
        assert(after is Ok && *after->Ok_0.type_entry == entry_before);
    }
}

/// C16: the identifier a call returns resolves, and to a finalized entry if the call created it.
fn c16_lemma_returned_identifier_resolves(ts: &mut TypeSpace, schema: &Schema)
    requires
        old(ts).wf(),
        keys_lawful(),
    ensures
        true,
{
    let ghost next_before = ts.next_id;
    let r = ts.add_type(schema);
    match r {
        Ok(id) => {
            // @returned_identifier_has_been_handed_out
            assert(id.0 < ts.next_id);
            assert(id == TypeId(id.0));
            assert(id.0 >= next_before ==> ts.ids().contains_key(TypeId(id.0)));
            let t = ts.get_type(&id);
            // @fresh_identifier_resolves_to_a_finalized_entry
            assert(id.0 >= next_before ==> t is Ok && finalized(*t->Ok_0.type_entry));
        }
        Err(_) => {}
    }
}
