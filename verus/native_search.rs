// Native counterexample search for the allocator contracts (C16).
//
// Verus gives no model when an obligation fails. This module is appended to
// typify-impl/src/type_entry.rs in a scratch copy of the working tree as
//     #[cfg(test)] #[path = "..."] mod verif_native_search;
// and run with the repository's own toolchain. It drives the REAL TypeSpace through
// random short call sequences (seeded by VERIF_SEED) and evaluates executable forms
// of the same postconditions as /verif/verus/contracts/*.spec after every call. The
// first failing step is printed as `NATIVE-FAIL ...` and the test panics.

use super::*;
use crate::{TypeId, TypeSpace};
use std::collections::BTreeMap;

struct Rng(u64);
impl Rng {
    fn next(&mut self) -> u64 {
        // xorshift64*
        self.0 ^= self.0 >> 12;
        self.0 ^= self.0 << 25;
        self.0 ^= self.0 >> 27;
        self.0.wrapping_mul(0x2545F4914F6CDD1D)
    }
    fn below(&mut self, n: u64) -> u64 {
        self.next() % n
    }
}

#[derive(Clone, PartialEq)]
struct Snap {
    next: u64,
    ids: BTreeMap<TypeId, TypeEntry>,
    names: BTreeMap<String, TypeId>,
    structs: BTreeMap<TypeEntryDetails, TypeId>,
    refs: BTreeMap<crate::RefKey, TypeId>,
}

fn snap(ts: &TypeSpace) -> Snap {
    Snap {
        next: ts.next_id,
        ids: ts.id_to_entry.clone(),
        names: ts.name_to_id.clone(),
        structs: ts.type_to_id.clone(),
        refs: ts.ref_to_id.clone(),
    }
}

fn named(d: &TypeEntryDetails) -> Option<&String> {
    match d {
        TypeEntryDetails::Enum(TypeEntryEnum { name, .. })
        | TypeEntryDetails::Struct(TypeEntryStruct { name, .. })
        | TypeEntryDetails::Newtype(TypeEntryNewtype { name, .. }) => Some(name),
        _ => None,
    }
}

fn wf(s: &Snap) -> std::result::Result<(), String> {
    if s.next < 1 {
        return Err("wf: next_id < 1".into());
    }
    for k in s.ids.keys() {
        if k.0 >= s.next {
            return Err(format!("wf: id_to_entry key {} >= next_id {}", k.0, s.next));
        }
    }
    for (n, v) in &s.names {
        if v.0 >= s.next {
            return Err(format!("wf: name_to_id[{}] = {} >= next_id", n, v.0));
        }
    }
    for (d, v) in &s.structs {
        if v.0 >= s.next {
            return Err(format!("wf: type_to_id value {} >= next_id", v.0));
        }
        if named(d).is_some() || matches!(d, TypeEntryDetails::Reference(_)) {
            return Err("wf: a named entry or a reference is a key of type_to_id".into());
        }
    }
    for v in s.refs.values() {
        if v.0 >= s.next {
            return Err("wf: ref_to_id value >= next_id".into());
        }
    }
    Ok(())
}

fn coherent(s: &Snap) -> bool {
    s.structs
        .iter()
        .all(|(d, id)| s.ids.get(id).map_or(false, |e| &e.details == d))
}

/// Executable form of contracts/assign_type.spec.
fn check_assign_type(old: &Snap, new: &Snap, ty: &TypeEntry, r: &TypeId) -> std::result::Result<(), String> {
    wf(new).map_err(|e| format!("P1 {}", e))?;
    if coherent(old) && !coherent(new) {
        return Err("P1 index coherence lost".into());
    }
    if !(old.next <= new.next && new.next <= old.next + 1) {
        return Err(format!("P2 next_id went from {} to {}", old.next, new.next));
    }
    if r.0 >= new.next {
        return Err(format!("P2 result {} >= next_id {}", r.0, new.next));
    }
    for (k, e) in &old.ids {
        if new.ids.get(k) != Some(e) {
            return Err(format!("P3 identifier {} no longer resolves to the same entry", k.0));
        }
    }
    for (n, v) in &old.names {
        if new.names.get(n) != Some(v) {
            return Err(format!("P4 name index entry {} re-pointed", n));
        }
    }
    for (d, v) in &old.structs {
        if new.structs.get(d) != Some(v) {
            return Err(format!("P4 structural index entry re-pointed (was {})", v.0));
        }
    }
    if new.refs != old.refs {
        return Err("P4 ref_to_id changed".into());
    }
    if let TypeEntryDetails::Reference(t) = &ty.details {
        if r != t || new != old {
            return Err("REF reference not resolved to its target / state changed".into());
        }
    } else if let Some(name) = named(&ty.details) {
        match old.names.get(name) {
            Some(id) => {
                if r != id || new != old {
                    return Err("P6 by-name reuse returned another id or changed the state".into());
                }
            }
            None => {
                let mut names = old.names.clone();
                names.insert(name.clone(), r.clone());
                let mut ids = old.ids.clone();
                ids.insert(r.clone(), ty.clone());
                if r.0 != old.next
                    || new.next != old.next + 1
                    || new.names != names
                    || new.ids != ids
                    || new.structs != old.structs
                {
                    return Err("P6 fresh named entry not recorded exactly".into());
                }
            }
        }
    } else {
        match old.structs.get(&ty.details) {
            Some(id) => {
                if r != id || new != old {
                    return Err("P5 structural reuse returned another id or changed the state".into());
                }
            }
            None => {
                let mut structs = old.structs.clone();
                structs.insert(ty.details.clone(), r.clone());
                let mut ids = old.ids.clone();
                ids.insert(r.clone(), ty.clone());
                if r.0 != old.next
                    || new.next != old.next + 1
                    || new.structs != structs
                    || new.ids != ids
                    || new.names != old.names
                {
                    return Err("P5 fresh unnamed entry not recorded exactly".into());
                }
            }
        }
        if new.structs.get(&ty.details) != Some(r) {
            return Err("P5 structural index does not map the entry to the result".into());
        }
    }
    Ok(())
}

fn random_entry(rng: &mut Rng, next: u64) -> TypeEntry {
    let id = |rng: &mut Rng| TypeId(rng.below(next.max(1)));
    let name = |rng: &mut Rng| format!("N{}", rng.below(4));
    let schema = || SchemaWrapper(Schema::Bool(true));
    let details = match rng.below(12) {
        0 => TypeEntryDetails::Unit,
        1 => TypeEntryDetails::Boolean,
        2 => TypeEntryDetails::String,
        3 => TypeEntryDetails::Option(id(rng)),
        4 => TypeEntryDetails::Box(id(rng)),
        5 => TypeEntryDetails::Vec(id(rng)),
        6 => TypeEntryDetails::Tuple(vec![id(rng), id(rng)]),
        7 => TypeEntryDetails::Integer(if rng.below(2) == 0 { "u8".into() } else { "i64".into() }),
        8 => TypeEntryDetails::Reference(id(rng)),
        9 => TypeEntryDetails::Struct(TypeEntryStruct {
            name: name(rng),
            rename: None,
            description: None,
            default: None,
            properties: vec![],
            deny_unknown_fields: rng.below(2) == 0,
            schema: schema(),
        }),
        10 => TypeEntryDetails::Newtype(TypeEntryNewtype {
            name: name(rng),
            rename: None,
            description: None,
            default: None,
            type_id: id(rng),
            constraints: TypeEntryNewtypeConstraints::None,
            schema: schema(),
        }),
        _ => TypeEntryDetails::Enum(TypeEntryEnum {
            name: name(rng),
            rename: None,
            description: None,
            default: None,
            tag_type: EnumTagType::External,
            variants: vec![],
            deny_unknown_fields: false,
            bespoke_impls: Default::default(),
            schema: schema(),
        }),
    };
    details.into()
}

#[test]
fn verif_native_search_allocator() {
    let seed: u64 = std::env::var("VERIF_SEED").ok().and_then(|s| s.parse().ok()).unwrap_or(0);
    let runs: u64 = std::env::var("VERIF_NATIVE_RUNS").ok().and_then(|s| s.parse().ok()).unwrap_or(3000);
    for run in 0..runs {
        let mut rng = Rng(0x9E3779B97F4A7C15 ^ seed.wrapping_mul(0xD1B54A32D192ED03) ^ (run + 1));
        let mut ts = TypeSpace::default();
        let mut trace: Vec<String> = Vec::new();
        for step in 0..12 {
            let old = snap(&ts);
            let op = rng.below(5);
            let res: std::result::Result<(), String> = match op {
                0 => {
                    let r = ts.assign();
                    trace.push("assign()".into());
                    let new = snap(&ts);
                    if r.0 != old.next
                        || new.next != old.next + 1
                        || new.ids != old.ids
                        || new.names != old.names
                        || new.structs != old.structs
                        || new.refs != old.refs
                    {
                        Err("assign: not (fresh id, next+1, maps unchanged)".into())
                    } else {
                        Ok(())
                    }
                }
                1 | 2 => {
                    let ty = random_entry(&mut rng, old.next);
                    trace.push(format!("assign_type({:?})", ty.details));
                    let r = ts.assign_type(ty.clone());
                    check_assign_type(&old, &snap(&ts), &ty, &r).map_err(|e| format!("assign_type: {}", e))
                }
                3 => {
                    let id = TypeId(rng.below(old.next.max(1)));
                    let boxed = rng.below(2) == 0;
                    trace.push(format!("{}({})", if boxed { "id_to_box" } else { "id_to_option" }, id.0));
                    let (r, ty): (TypeId, TypeEntry) = if boxed {
                        (ts.id_to_box(&id), TypeEntryDetails::Box(id.clone()).into())
                    } else {
                        (ts.id_to_option(&id), TypeEntryDetails::Option(id.clone()).into())
                    };
                    check_assign_type(&old, &snap(&ts), &ty, &r)
                        .map_err(|e| format!("{}: {}", if boxed { "id_to_box" } else { "id_to_option" }, e))
                }
                _ => {
                    let ty = random_entry(&mut rng, old.next);
                    trace.push(format!("type_to_option({:?})", ty.details));
                    let r = ts.type_to_option(ty.clone());
                    let new = snap(&ts);
                    match &r.details {
                        TypeEntryDetails::Option(inner) => check_assign_type(&old, &new, &ty, inner)
                            .map_err(|e| format!("type_to_option: {}", e)),
                        _ => Err("type_to_option: result is not an Option".into()),
                    }
                }
            };
            if let Err(e) = res {
                println!(
                    "NATIVE-FAIL seed={} run={} step={} violated=\"{}\" trace={:?}",
                    seed, run, step, e, trace
                );
                panic!("allocator postcondition violated: {}", e);
            }
        }
    }
    println!("NATIVE-SEARCH no failing sequence in {} runs of 12 steps (seed {})", runs, seed);
}


// =====================================================================================
// API-level search: random short histories of add_type_with_name / add_ref_types over a
// pool of small schemas, checking executable forms of (a) the contracts proved for
// add_type_with_name / the add_ref_types_impl tail and (b) the ASSUMED contracts they
// rest on (convert_schema: older entries untouched, every fresh identifier has an entry;
// break_cycles: no containment cycle through the batch; finalize: markers computed).
// A failure on the UNCHANGED tree means an assumed contract is wrong.
// =====================================================================================

fn schema_pool() -> Vec<(&'static str, serde_json::Value)> {
    use serde_json::json;
    vec![
        ("Leaf", json!({"type": "object", "properties": {"a": {"type": "string"}}, "required": ["a"]})),
        ("Node", json!({"type": "object", "properties": {"next": {"$ref": "#/definitions/Node"}, "v": {"type": "integer"}}})),
        ("Tree", json!({"type": "object", "properties": {"left": {"$ref": "#/definitions/Tree"}, "right": {"$ref": "#/definitions/Tree"}}, "required": ["left", "right"]})),
        ("Kind", json!({"type": "string", "enum": ["a", "b", "c"]})),
        ("Holder", json!({"type": "object", "properties": {"kind": {"type": "string", "enum": ["x", "y"]}, "n": {"type": "integer", "minimum": 1}}})),
        ("Pair", json!({"type": "array", "items": [{"type": "integer"}, {"$ref": "#/definitions/Pair"}], "minItems": 2, "maxItems": 2})),
        ("Alias", json!({"type": "string"})),
        ("Opt", json!({"type": ["string", "null"]})),
        // an untagged enum whose FromStr / Display depend on a type that is finalized AFTER it in
        // the same batch (Beta is always pushed right behind Alpha)
        ("Alpha", json!({"oneOf": [{"$ref": "#/definitions/Beta"}, {"type": "integer"}]})),
        ("Beta", json!({"type": "string", "enum": ["p", "q"]})),
    ]
}

fn children_by_value(e: &TypeEntry) -> Vec<TypeId> {
    let mut out = Vec::new();
    match &e.details {
        TypeEntryDetails::Enum(en) => {
            for v in &en.variants {
                match &v.details {
                    VariantDetails::Simple => {}
                    VariantDetails::Item(t) => out.push(t.clone()),
                    VariantDetails::Tuple(ts) => out.extend(ts.iter().cloned()),
                    VariantDetails::Struct(ps) => out.extend(ps.iter().map(|p| p.type_id.clone())),
                }
            }
        }
        TypeEntryDetails::Struct(s) => out.extend(s.properties.iter().map(|p| p.type_id.clone())),
        TypeEntryDetails::Newtype(n) => out.push(n.type_id.clone()),
        TypeEntryDetails::Option(t) | TypeEntryDetails::Array(t, _) => out.push(t.clone()),
        TypeEntryDetails::Tuple(ts) => out.extend(ts.iter().cloned()),
        _ => {}
    }
    out
}

fn has_containment_cycle(ts: &TypeSpace, from: u64, to: u64) -> Option<u64> {
    // 0 = unseen, 1 = on the stack, 2 = done
    fn dfs(ts: &TypeSpace, id: &TypeId, state: &mut BTreeMap<TypeId, u8>) -> bool {
        match state.get(id) {
            Some(1) => return true,
            Some(2) => return false,
            _ => {}
        }
        state.insert(id.clone(), 1);
        if let Some(e) = ts.id_to_entry.get(id) {
            for c in children_by_value(e) {
                if dfs(ts, &c, state) {
                    return true;
                }
            }
        }
        state.insert(id.clone(), 2);
        false
    }
    for i in from..to {
        let mut state = BTreeMap::new();
        if dfs(ts, &TypeId(i), &mut state) {
            return Some(i);
        }
    }
    None
}

fn check_new_entries(ts: &TypeSpace, old: &Snap, what: &str) -> std::result::Result<(), String> {
    let new = snap(ts);
    for (k, e) in &old.ids {
        if new.ids.get(k) != Some(e) {
            return Err(format!("{}: identifier {} (handed out earlier) no longer resolves to the same entry", what, k.0));
        }
    }
    for i in old.next..new.next {
        match new.ids.get(&TypeId(i)) {
            None => return Err(format!("{}: fresh identifier {} has no entry", what, i)),
            Some(e) => {
                if let TypeEntryDetails::Enum(en) = &e.details {
                    let all_simple = en.tag_type != EnumTagType::Untagged
                        && !en.variants.is_empty()
                        && en.variants.iter().all(|v| matches!(v.details, VariantDetails::Simple));
                    if all_simple && !en.bespoke_impls.contains(&TypeEntryEnumImpl::AllSimpleVariants) {
                        return Err(format!("{}: fresh enum {} ({}) was never finalized", what, i, en.name));
                    }
                }
            }
        }
    }
    wf(&new).map_err(|e| format!("{}: {}", what, e))
}

#[test]
fn verif_native_search_api() {
    let seed: u64 = std::env::var("VERIF_SEED").ok().and_then(|s| s.parse().ok()).unwrap_or(0);
    let runs: u64 = std::env::var("VERIF_NATIVE_API_RUNS").ok().and_then(|s| s.parse().ok()).unwrap_or(400);
    let pool = schema_pool();
    for run in 0..runs {
        let mut rng = Rng(0xA0761D6478BD642F ^ seed.wrapping_mul(0xE7037ED1A0B428DB) ^ (run + 1));
        let mut ts = TypeSpace::default();
        let mut trace: Vec<String> = Vec::new();
        for step in 0..4 {
            let old = snap(&ts);
            let action = rng.below(5);
            let res: std::result::Result<(), String> = if action < 2 {
                // a batch of 1-2 definitions (self-contained: references stay inside the batch)
                let n = 1 + rng.below(2) as usize;
                let mut batch: Vec<(String, schemars::schema::Schema)> = Vec::new();
                for _ in 0..n {
                    let (name, v) = &pool[rng.below(pool.len() as u64) as usize];
                    if batch.iter().any(|(b, _)| b == name) || old.refs.contains_key(&crate::RefKey::Def(name.to_string())) {
                        continue;
                    }
                    batch.push((name.to_string(), serde_json::from_value(v.clone()).unwrap()));
                    if *name == "Alpha" && !batch.iter().any(|(b, _)| b == "Beta") && !old.refs.contains_key(&crate::RefKey::Def("Beta".to_string())) {
                        let beta = &pool.iter().find(|(n, _)| *n == "Beta").unwrap().1;
                        batch.push(("Beta".to_string(), serde_json::from_value(beta.clone()).unwrap()));
                    }
                }
                trace.push(format!("add_ref_types({:?})", batch.iter().map(|(n, _)| n.clone()).collect::<Vec<_>>()));
                let len = batch.len() as u64;
                match ts.add_ref_types(batch) {
                    Err(_) => Ok(()),
                    Ok(()) => check_new_entries(&ts, &old, "add_ref_types").and_then(|_| {
                        match has_containment_cycle(&ts, old.next, old.next + len) {
                            Some(i) => Err(format!("add_ref_types: containment cycle without a Box through identifier {} of the batch", i)),
                            None => Ok(()),
                        }
                    }),
                }
            } else if action == 4 {
                // a document whose TITLED root schema becomes a type of its own, then the same
                // root schema added again: "adding a schema that was already added returns a type
                // with the same identifier and adds no new definitions"
                if old.refs.contains_key(&crate::RefKey::Root)
                    || old.refs.contains_key(&crate::RefKey::Def("Mode".to_string()))
                    || old.names.contains_key("Config")
                    || old.names.contains_key("Mode")
                {
                    continue;
                }
                let root: schemars::schema::RootSchema = serde_json::from_value(serde_json::json!({
                    "title": "Config",
                    "type": "object",
                    "properties": {"mode": {"$ref": "#/definitions/Mode"}, "n": {"type": "integer"}},
                    "required": ["n"],
                    "definitions": {"Mode": {"type": "string", "enum": ["fast", "slow"]}}
                }))
                .unwrap();
                trace.push("add_root_schema(Config{Mode})".to_string());
                match ts.add_root_schema(root.clone()) {
                    Err(_) => Ok(()),
                    Ok(None) => Err("add_root_schema: a titled root schema yielded no type".to_string()),
                    Ok(Some(id)) => check_new_entries(&ts, &old, "add_root_schema").and_then(|_| {
                        let mid = snap(&ts);
                        trace.push("add_type_with_name(Config root again, Some(Config))".to_string());
                        match ts.add_type_with_name(&schemars::schema::Schema::Object(root.schema.clone()), Some("Config".to_string())) {
                            Err(_) => Ok(()),
                            Ok(id2) => {
                                if id2 != id {
                                    Err(format!("re-adding the root schema returned identifier {} instead of {}", id2.0, id.0))
                                } else if snap(&ts).ids != mid.ids {
                                    Err("re-adding the root schema added or changed definitions".to_string())
                                } else {
                                    Ok(())
                                }
                            }
                        }
                    }),
                }
            } else {
                let (name, v) = &pool[rng.below(pool.len() as u64) as usize];
                // only schemas without $ref can be added on their own
                if v.to_string().contains("$ref") {
                    continue;
                }
                // (a struct / enum schema without title and without a name hint makes typify panic in
                // get_type_name(..).unwrap(); that is outside C16, so a hint is always given)
                // the hint may be the name of ANOTHER schema of the pool: by-name reuse of the top-level
                // type while its inline sub-types are new
                let hint = Some(match rng.below(3) {
                    0 => name.to_string(),
                    1 => format!("{}X", name),
                    _ => pool[rng.below(pool.len() as u64) as usize].0.to_string(),
                });
                trace.push(format!("add_type_with_name({}, {:?})", name, hint));
                let schema: schemars::schema::Schema = serde_json::from_value(v.clone()).unwrap();
                let hint2 = hint.clone();
                match ts.add_type_with_name(&schema, hint) {
                    Err(_) => Ok(()),
                    Ok(id) => {
                        if id.0 >= ts.next_id {
                            Err("add_type_with_name: returned identifier was never handed out".to_string())
                        } else {
                            check_new_entries(&ts, &old, "add_type_with_name").and_then(|_| {
                                // the same schema under the same hint once more: same identifier,
                                // no new definitions
                                let mid = snap(&ts);
                                match ts.add_type_with_name(&schema, hint2.clone()) {
                                    Err(_) => Ok(()),
                                    Ok(id2) => {
                                        if id2 != id {
                                            Err(format!("adding the same schema again returned identifier {} instead of {}", id2.0, id.0))
                                        } else if snap(&ts).ids != mid.ids {
                                            Err("adding the same schema again added or changed definitions".to_string())
                                        } else {
                                            Ok(())
                                        }
                                    }
                                }
                            })
                        }
                    }
                }
            };
            if let Err(e) = res {
                println!("NATIVE-FAIL seed={} run={} step={} violated=\"{}\" trace={:?}", seed, run, step, e, trace);
                panic!("ingestion postcondition violated: {}", e);
            }
        }
    }
    println!("NATIVE-SEARCH-API no failing history in {} runs of up to 4 calls (batches incl. a forward-referencing pair, titled root documents, re-adds; seed {})", runs, seed);
}
